// C15 — serialization round trips; every strict prefix and every single-byte corruption of a tensor stream is rejected.
//
// Fault enumeration over a corpus of serialized objects built by this harness with the REAL writers:
//   tensors (10 scalar types x rank 1..5 x every shape over a dims alphabet), parameters and features of every kind,
//   vectors of them, every factory object of solver/loss/splitter/tuner/lsearch0/lsearchk/wlearner/linear (default and
//   modified configuration), weak learners of every type FITTED on two small table datasets, the four linear models and
//   gradient boosting models fitted on ~20 samples.
//
// stages (--stage):
//   roundtrip : write -> read into a fresh object => same parameters (compared field by field through storage()),
//               same tensors bit by bit, writing again gives the identical byte string, the reader consumed exactly the
//               written bytes, predict() on the harness dataset is bit-identical.
//   truncate  : for EVERY object and EVERY k in [0,len): the real reader is run on the first k bytes; it must throw or
//               leave the stream failed. A prefix that ends strictly inside a nested object (parameter inside a vector,
//               feature, tensor, weak learner inside a model) is counted as non-trivial.
//   corrupt   : every tensor stream (stand-alone and nested in weak learner / linear / boosting streams), every byte
//               position, b -> b^0x01, b^0x80, ~b: the reader must report failure. Not judged (counted as outcome
//               "accepted:empty-tensor-reshaped(not judged)"): a dims byte of a tensor WITHOUT elements was altered and the
//               reader produced another well-formed empty tensor (all dims >= 0, no elements) - there is no payload to
//               protect. Any other acceptance (payload, any field of a non-empty tensor, a negative dim) is a violation.
//
// --rlimit-mb N caps the address space (RLIMIT_AS): a garbage size field then produces std::bad_alloc (= rejection)
// instead of an OOM kill. Not usable under ASan (its shadow needs terabytes of address space): the asan stages run
// without it and rely on allocator_may_return_null=1 (set by the driver).
#include "table_ds.h"
#include "verif.h"
#include <nano/core/stream.h>
#include <nano/feature.h>
#include <nano/gboost/enums.h>
#include <nano/gboost/model.h>
#include <nano/linear.h>
#include <nano/loss.h>
#include <nano/lsearch0.h>
#include <nano/lsearchk.h>
#include <nano/parameter.h>
#include <nano/solver.h>
#include <nano/splitter.h>
#include <nano/tensor/stream.h>
#include <nano/tuner.h>
#include <nano/wlearner.h>
#include <nano/wlearner/criterion.h>
#include <nano/wlearner/dtree.h>
#include <nano/wlearner/single.h>
#include <nano/wlearner/table.h>
#include <sys/resource.h>
#include <typeinfo>

using namespace nano;
using namespace verif;

// Under ASan RLIMIT_AS is unusable; its allocator gets the cap instead: with allocator_may_return_null=1 (set by the
// driver) a request above the limit makes malloc return nullptr (=> std::bad_alloc from Eigen's allocator, a rejection)
// instead of mapping and poisoning gigabytes of memory. The corpus itself needs a few kilobytes per object.
extern "C" const char* __asan_default_options(); // NOLINT
extern "C" const char* __asan_default_options()  // NOLINT
{
    return "max_allocation_size_mb=8:allocator_may_return_null=1";
}

namespace
{
// ---------------------------------------------------------------------------------------------------------------------
// running a reader on a byte range
struct membuf_t final : std::streambuf
{
    membuf_t(const char* p, const size_t n)
    {
        auto* b = const_cast<char*>(p); // NOLINT: the get area is never written to
        setg(b, b, b + n);
    }
    size_t consumed() const { return static_cast<size_t>(gptr() - eback()); }
};

enum class rd
{
    ok,
    failbit,
    runtime_error,
    alloc_exception,
    std_exception,
    unknown_exception
};

const char* name(const rd what)
{
    switch (what)
    {
    case rd::ok: return "accepted";
    case rd::failbit: return "rejected:failed-stream";
    case rd::runtime_error: return "rejected:runtime_error";
    case rd::alloc_exception: return "rejected:bad_alloc-or-length_error";
    case rd::std_exception: return "rejected:other-std-exception";
    default: return "rejected:unknown-exception";
    }
}

struct read_result_t
{
    rd          what{rd::ok};
    size_t      consumed{0};
    std::string message;
};

template <class treader>
read_result_t guarded(const char* data, const size_t size, const treader& reader)
{
    membuf_t      buf(data, size);
    std::istream  stream(&buf);
    read_result_t res;
    try
    {
        reader(stream);
        res.what = stream.fail() ? rd::failbit : rd::ok;
    }
    catch (const std::bad_alloc& e)
    {
        res.what    = rd::alloc_exception;
        res.message = e.what();
    }
    catch (const std::length_error& e)
    {
        res.what    = rd::alloc_exception;
        res.message = e.what();
    }
    catch (const std::runtime_error& e)
    {
        res.what    = rd::runtime_error;
        res.message = e.what();
    }
    catch (const std::exception& e)
    {
        res.what    = rd::std_exception;
        res.message = e.what();
    }
    catch (...)
    {
        res.what = rd::unknown_exception;
    }
    res.consumed = buf.consumed();
    return res;
}

/// the judgement of the two fault stages: a strict prefix / a corrupted tensor stream must not be accepted
bool is_silent_success(const read_result_t& res)
{
    return res.what == rd::ok;
}

template <class twriter>
std::string to_bytes(const twriter& writer)
{
    std::ostringstream stream;
    writer(stream);
    if (!stream)
    {
        std::fprintf(stderr, "c15: writing a corpus object failed\n");
        std::exit(2);
    }
    return stream.str();
}

std::string hex(const std::string& bytes, const size_t from, const size_t count)
{
    std::string o;
    char        buf[4];
    for (size_t i = from; i < std::min(bytes.size(), from + count); ++i)
    {
        std::snprintf(buf, sizeof(buf), "%02x", static_cast<unsigned>(static_cast<unsigned char>(bytes[i])));
        o += buf;
    }
    return o;
}

// ---------------------------------------------------------------------------------------------------------------------
// canonical text of parameters / features / configurations (written from storage(), not with operator==)
std::string hexd(const double v)
{
    char buf[64];
    std::snprintf(buf, sizeof(buf), "%a", v);
    return buf;
}

const char* comp(const LEorLT& c)
{
    return std::holds_alternative<LE_t>(c) ? "<=" : "<";
}

std::string repr(const parameter_t& p)
{
    std::string o = "{" + p.name() + "|";
    std::visit(overloaded{[&](const std::monostate&) { o += "none"; },
                          [&](const parameter_t::enum_t& e)
                          {
                              o += "enum:" + e.m_value + ":";
                              for (const auto& d : e.m_domain)
                              {
                                  o += d + ",";
                              }
                          },
                          [&](const parameter_t::irange_t& r)
                          {
                              o += "int:" + std::to_string(r.m_min) + comp(r.m_mincomp) + std::to_string(r.m_value) +
                                   comp(r.m_maxcomp) + std::to_string(r.m_max);
                          },
                          [&](const parameter_t::frange_t& r)
                          { o += "float:" + hexd(r.m_min) + comp(r.m_mincomp) + hexd(r.m_value) + comp(r.m_maxcomp) + hexd(r.m_max); },
                          [&](const parameter_t::iprange_t& r)
                          {
                              o += "ipair:" + std::to_string(r.m_min) + comp(r.m_mincomp) + std::to_string(r.m_value1) +
                                   comp(r.m_valcomp) + std::to_string(r.m_value2) + comp(r.m_maxcomp) + std::to_string(r.m_max);
                          },
                          [&](const parameter_t::fprange_t& r)
                          {
                              o += "fpair:" + hexd(r.m_min) + comp(r.m_mincomp) + hexd(r.m_value1) + comp(r.m_valcomp) +
                                   hexd(r.m_value2) + comp(r.m_maxcomp) + hexd(r.m_max);
                          },
                          [&](const string_t& s) { o += "string:" + s; }},
               p.storage());
    return o + "}";
}

std::string repr(const parameters_t& ps)
{
    std::string o;
    for (const auto& p : ps)
    {
        o += repr(p);
    }
    return o;
}

std::string repr(const feature_t& f)
{
    std::string o = "{" + f.name() + "|" + std::to_string(static_cast<int>(f.type())) + "|";
    for (const auto d : f.dims())
    {
        o += std::to_string(d) + "x";
    }
    o += "|";
    for (const auto& l : f.labels())
    {
        o += l + ",";
    }
    return o + "}";
}

template <class ttensor>
bool same_bits(const ttensor& a, const ttensor& b)
{
    return a.dims() == b.dims() &&
           (a.size() == 0 ||
            std::memcmp(a.data(), b.data(), static_cast<size_t>(a.size()) * sizeof(*a.data())) == 0);
}

// ---------------------------------------------------------------------------------------------------------------------
// corpus entries
struct span_t
{
    size_t      begin{0};
    size_t      end{0};
    std::string what; ///< e.g. "parameter", "wlearner/tensor"
};

struct entry_t
{
    std::string                                    kind; ///< tensor, parameter, feature, factory:<base>, wlearner, linear, gboost, ...
    std::string                                    name;
    std::string                                    bytes;
    std::vector<span_t>                            nested;
    std::function<void(std::istream&)>             read;      ///< the real reader on a fresh object
    std::function<std::string(const entry_t&)>     roundtrip; ///< "" or "<what>|<detail>"
    // tensors only
    size_t rank{0};
    size_t scalar_size{0};
    bool   empty_tensor{false};
    std::function<std::vector<tensor_size_t>(const char*, size_t)> read_back_dims; ///< dims of the tensor the reader produced
};
using rentry_t = std::shared_ptr<entry_t>;

void add_span(const std::string& hay, size_t& pos, const std::string& needle, const std::string& what,
              std::vector<span_t>& out, const size_t offset = 0)
{
    const auto at = hay.find(needle, pos);
    if (at == std::string::npos || needle.empty())
    {
        std::fprintf(stderr, "c15: nested object '%s' not found in its container stream\n", what.c_str());
        std::exit(2);
    }
    out.push_back({offset + at, offset + at + needle.size(), what});
    pos = at + needle.size();
}

template <class tobject>
std::string bytes_of(const tobject& object)
{
    return to_bytes([&](std::ostream& os) { ::nano::write(os, object); });
}

/// where does a prefix of length k end?
std::string where_of(const entry_t& e, const size_t k)
{
    // innermost span that contains k strictly
    const span_t* best = nullptr;
    for (const auto& s : e.nested)
    {
        if (s.begin < k && k < s.end && (best == nullptr || (s.end - s.begin) <= (best->end - best->begin)))
        {
            best = &s;
        }
    }
    if (best != nullptr)
    {
        return "inside-nested-" + best->what;
    }
    if (e.kind == "tensor")
    {
        return k < (20 + 4 * e.rank) ? "tensor-header" : "tensor-payload";
    }
    return "top-level-field";
}

// ---------------------------------------------------------------------------------------------------------------------
// tensors
template <class T>
T element(const uint64_t i, const uint64_t salt)
{
    if constexpr (std::is_floating_point_v<T>)
    {
        if (i % 7 == 3)
        {
            return static_cast<T>(-0.0);
        }
        if (i % 11 == 5)
        {
            return std::numeric_limits<T>::infinity();
        }
        if (i % 13 == 7)
        {
            return std::numeric_limits<T>::quiet_NaN();
        }
        return static_cast<T>(1000.0 * vt::generic(i, salt));
    }
    else
    {
        const uint64_t x = (i + 1) * 0x9E3779B97F4A7C15ULL + salt * 0xD1B54A32D192ED03ULL;
        return static_cast<T>(x >> 17U);
    }
}

template <class T, size_t R>
rentry_t tensor_entry(const std::vector<tensor_size_t>& shape, const std::string& tname, const uint64_t salt)
{
    tensor_dims_t<R> dims;
    std::string      sname;
    for (size_t i = 0; i < R; ++i)
    {
        dims[i] = shape[i];
        sname += (i ? "x" : "") + std::to_string(shape[i]);
    }
    auto tensor = std::make_shared<tensor_mem_t<T, R>>(dims);
    for (tensor_size_t i = 0; i < tensor->size(); ++i)
    {
        tensor->data()[i] = element<T>(static_cast<uint64_t>(i), salt);
    }
    auto e          = std::make_shared<entry_t>();
    e->kind         = "tensor";
    e->name         = tname + "[" + sname + "]";
    e->rank         = R;
    e->scalar_size  = sizeof(T);
    e->empty_tensor = tensor->size() == 0;
    e->bytes        = to_bytes([&](std::ostream& os) { ::nano::write(os, *tensor); });
    e->read         = [](std::istream& is)
    {
        tensor_mem_t<T, R> x;
        ::nano::read(is, x);
    };
    e->read_back_dims = [](const char* data, const size_t size)
    {
        tensor_mem_t<T, R> x;
        guarded(data, size, [&](std::istream& is) { ::nano::read(is, x); });
        return std::vector<tensor_size_t>(x.dims().begin(), x.dims().end());
    };
    e->roundtrip = [tensor](const entry_t& self) -> std::string
    {
        // the destination is deliberately not empty
        tensor_dims_t<R> junk;
        junk.fill(1);
        junk[0] = 2;
        tensor_mem_t<T, R> x(junk);
        std::memset(x.data(), 0x5A, sizeof(T) * 2);
        const auto res = guarded(self.bytes.data(), self.bytes.size(), [&](std::istream& is) { ::nano::read(is, x); });
        if (res.what != rd::ok)
        {
            return std::string("full-stream-rejected|") + name(res.what) + " " + res.message;
        }
        if (res.consumed != self.bytes.size())
        {
            return "reader-consumed-different-length|" + std::to_string(res.consumed);
        }
        if (x.dims() != tensor->dims())
        {
            return "dims-differ|";
        }
        if (!same_bits(x, *tensor))
        {
            return "content-differs|";
        }
        if (to_bytes([&](std::ostream& os) { ::nano::write(os, x); }) != self.bytes)
        {
            return "rewrite-differs|";
        }
        // expected length of the documented layout: version, rank, dims(int32), sizeof(scalar), hash, content
        if (self.bytes.size() != 4 + 4 + 4 * R + 4 + 8 + sizeof(T) * static_cast<size_t>(tensor->size()))
        {
            return "unexpected-stream-length|" + std::to_string(self.bytes.size());
        }
        return "";
    };
    return e;
}

using tensor_maker_t = rentry_t (*)(const std::vector<tensor_size_t>&, const std::string&, uint64_t);

template <class T>
tensor_maker_t tensor_maker_of_rank(const size_t rank)
{
    switch (rank)
    {
    case 1: return &tensor_entry<T, 1>;
    case 2: return &tensor_entry<T, 2>;
    case 3: return &tensor_entry<T, 3>;
    case 4: return &tensor_entry<T, 4>;
    default: return &tensor_entry<T, 5>;
    }
}

const std::vector<std::string> SCALARS = {"int8",   "int16",  "int32",  "int64", "uint8",
                                          "uint16", "uint32", "uint64", "float", "double"};

rentry_t make_tensor(const size_t type, const std::vector<tensor_size_t>& shape, const uint64_t salt)
{
    const auto rank = shape.size();
    switch (type)
    {
    case 0: return tensor_maker_of_rank<int8_t>(rank)(shape, SCALARS[type], salt);
    case 1: return tensor_maker_of_rank<int16_t>(rank)(shape, SCALARS[type], salt);
    case 2: return tensor_maker_of_rank<int32_t>(rank)(shape, SCALARS[type], salt);
    case 3: return tensor_maker_of_rank<int64_t>(rank)(shape, SCALARS[type], salt);
    case 4: return tensor_maker_of_rank<uint8_t>(rank)(shape, SCALARS[type], salt);
    case 5: return tensor_maker_of_rank<uint16_t>(rank)(shape, SCALARS[type], salt);
    case 6: return tensor_maker_of_rank<uint32_t>(rank)(shape, SCALARS[type], salt);
    case 7: return tensor_maker_of_rank<uint64_t>(rank)(shape, SCALARS[type], salt);
    case 8: return tensor_maker_of_rank<float>(rank)(shape, SCALARS[type], salt);
    default: return tensor_maker_of_rank<double>(rank)(shape, SCALARS[type], salt);
    }
}

/// every shape of rank `minrank..maxrank` with dims in 0..maxdim (per rank), simplest first
void add_shapes(std::vector<std::vector<tensor_size_t>>& shapes, const size_t rank, const tensor_size_t maxdim)
{
    const auto base  = static_cast<uint64_t>(maxdim + 1);
    uint64_t   count = 1;
    for (size_t i = 0; i < rank; ++i)
    {
        count *= base;
    }
    for (uint64_t c = 0; c < count; ++c)
    {
        std::vector<tensor_size_t> shape(rank);
        auto                       x = c;
        for (size_t i = rank; i-- > 0;)
        {
            shape[i] = static_cast<tensor_size_t>(x % base);
            x /= base;
        }
        shapes.push_back(shape);
    }
}

// ---------------------------------------------------------------------------------------------------------------------
// plain value objects: parameter_t, feature_t and vectors of them
template <class tobject>
rentry_t value_entry(const std::string& kind, const std::string& name_, const tobject& object,
                     const std::function<std::string(const tobject&)>& text)
{
    auto e   = std::make_shared<entry_t>();
    e->kind  = kind;
    e->name  = name_;
    e->bytes = bytes_of(object);
    e->read  = [](std::istream& is)
    {
        tobject x;
        ::nano::read(is, x);
    };
    const auto expected = text(object);
    e->roundtrip        = [expected, text](const entry_t& self) -> std::string
    {
        tobject    x;
        const auto res = guarded(self.bytes.data(), self.bytes.size(), [&](std::istream& is) { ::nano::read(is, x); });
        if (res.what != rd::ok)
        {
            return std::string("full-stream-rejected|") + name(res.what) + " " + res.message;
        }
        if (res.consumed != self.bytes.size())
        {
            return "reader-consumed-different-length|" + std::to_string(res.consumed);
        }
        if (text(x) != expected)
        {
            return "value-differs|" + text(x) + " vs " + expected;
        }
        if (bytes_of(x) != self.bytes)
        {
            return "rewrite-differs|";
        }
        return "";
    };
    return e;
}

parameters_t corpus_parameters()
{
    parameters_t ps;
    ps.emplace_back();
    ps.push_back(parameter_t::make_enum("enum", feature_type::float32));
    {
        auto p = parameter_t::make_enum("criterion", wlearner_criterion::aicc);
        p      = wlearner_criterion::bic;
        ps.push_back(p);
    }
    ps.push_back(parameter_t::make_enum("gboost::subsample", gboost_subsample::off));
    ps.push_back(parameter_t::make_string("str", ""));
    {
        const char text[] = "some value \x01\xff with a zero \0 inside";
        ps.push_back(parameter_t::make_string("a string", std::string(text, sizeof(text) - 1)));
    }
    ps.push_back(parameter_t::make_integer("int", 0, LE, 5, LE, 10));
    ps.push_back(parameter_t::make_integer("int-lt", -7, LT, -3, LT, 1000000000000LL));
    {
        auto p = parameter_t::make_integer("int-set", 0, LT, 1, LE, 1024);
        p      = 777;
        ps.push_back(p);
    }
    ps.push_back(parameter_t::make_scalar("scalar", 0.0, LT, 0.5, LE, 1.0));
    ps.push_back(parameter_t::make_scalar("scalar-wide", -1e300, LE, 1e-300, LT, 1e300));
    ps.push_back(parameter_t::make_integer_pair("ipair", 0, LE, 1, LT, 2, LE, 3));
    ps.push_back(parameter_t::make_integer_pair("ipair-eq", -5, LT, 2, LE, 2, LT, 5));
    ps.push_back(parameter_t::make_scalar_pair("fpair", 0.0, LT, 0.1, LE, 0.1, LT, 1.0));
    {
        auto p = parameter_t::make_scalar_pair("fpair-set", 0.0, LE, 0.25, LT, 0.5, LE, 1.0);
        p      = std::make_tuple(1e-4, 0.9);
        ps.push_back(p);
    }
    ps.push_back(parameter_t::make_scalar("", 0, LE, 0, LE, 0));
    return ps;
}

features_t corpus_features()
{
    features_t fs;
    fs.emplace_back();
    const feature_type scalars[] = {feature_type::int8,   feature_type::int16,  feature_type::int32,  feature_type::int64,
                                    feature_type::uint8,  feature_type::uint16, feature_type::uint32, feature_type::uint64,
                                    feature_type::float32, feature_type::float64};
    int                i         = 0;
    for (const auto type : scalars)
    {
        fs.push_back(feature_t{"scalar" + std::to_string(i++)}.scalar(type));
    }
    fs.push_back(feature_t{"struct-u64"}.scalar(feature_type::uint64, make_dims(1, 2, 2)));
    fs.push_back(feature_t{"struct-f32"}.scalar(feature_type::float32, make_dims(2, 1, 3)));
    fs.push_back(feature_t{"sclass-labels"}.sclass(strings_t{"s10", "s11"}));
    fs.push_back(feature_t{"sclass-count"}.sclass(3));
    fs.push_back(feature_t{"sclass-partial"}.sclass(strings_t{"cat", "", "a longer label with spaces"}));
    fs.push_back(feature_t{"mclass-labels"}.mclass(strings_t{"m00", "m01", "m02", "m03"}));
    fs.push_back(feature_t{"mclass-count"}.mclass(2));
    fs.push_back(feature_t{"sclass-nolabels"}.sclass(strings_t{}));
    return fs;
}

// ---------------------------------------------------------------------------------------------------------------------
// modified configurations
bool try_set(configurable_t& c, const std::string& pname, const std::function<void(parameter_t&)>& setter)
{
    const auto before = repr(c.parameter(pname));
    try
    {
        setter(c.parameter(pname));
    }
    catch (const std::exception&)
    {
        return false;
    }
    return repr(c.parameter(pname)) != before;
}

/// change every parameter that has another admissible value; returns the number of changed parameters
int modify(configurable_t& c)
{
    int changed = 0;
    // NB: work on copies, the visited storage is the one being modified
    const auto params = c.parameters();
    for (const auto& p : params)
    {
        const auto pname = p.name();
        bool       done  = false;
        std::visit(overloaded{[&](const std::monostate&) {},
                              [&](const parameter_t::enum_t& e)
                              {
                                  for (const auto& d : e.m_domain)
                                  {
                                      done = done || (d != e.m_value && try_set(c, pname, [&](parameter_t& q) { q = d; }));
                                  }
                              },
                              [&](const parameter_t::irange_t& r)
                              {
                                  for (const int64_t v : {r.m_value + 1, r.m_value - 1})
                                  {
                                      done = done || try_set(c, pname, [&](parameter_t& q) { q = v; });
                                  }
                              },
                              [&](const parameter_t::frange_t& r)
                              {
                                  for (const double v : {0.5 * (r.m_value + r.m_max), 0.5 * (r.m_value + r.m_min), r.m_value * 0.75})
                                  {
                                      done = done || (std::isfinite(v) && try_set(c, pname, [&](parameter_t& q) { q = v; }));
                                  }
                              },
                              [&](const parameter_t::iprange_t& r)
                              {
                                  for (const auto& v : {std::make_tuple(r.m_value1, r.m_value2 + 1),
                                                        std::make_tuple(r.m_value1 - 1, r.m_value2)})
                                  {
                                      done = done || try_set(c, pname, [&](parameter_t& q) { q = v; });
                                  }
                              },
                              [&](const parameter_t::fprange_t& r)
                              {
                                  for (const auto& v : {std::make_tuple(r.m_value1, 0.5 * (r.m_value2 + r.m_max)),
                                                        std::make_tuple(0.5 * (r.m_value1 + r.m_min), r.m_value2)})
                                  {
                                      done = done || (std::isfinite(std::get<0>(v)) && std::isfinite(std::get<1>(v)) &&
                                                      try_set(c, pname, [&](parameter_t& q) { q = v; }));
                                  }
                              },
                              [&](const string_t& s) { done = try_set(c, pname, [&](parameter_t& q) { q = s + "-modified"; }); }},
                   p.storage());
        changed += done ? 1 : 0;
    }
    return changed;
}

// ---------------------------------------------------------------------------------------------------------------------
// harness datasets
struct data_t
{
    std::unique_ptr<vt::table_datasource_t> source;
    std::unique_ptr<dataset_t>              dataset;
    indices_t                               samples;
    tensor4d_t                              gradients; ///< residual-like values to fit the weak learners on
};

/// kind 0: scalar target; kind 1: structured target (2 outputs); kind 2: clean linear problem
const data_t& data(const int kind)
{
    static std::map<int, data_t> cache;
    const auto                   it = cache.find(kind);
    if (it != cache.end())
    {
        return it->second;
    }
    const tensor_size_t        N = kind == 2 ? 24 : 40;
    std::vector<vt::column_t> cols;
    auto&                      out = cache[kind];
    if (kind == 2)
    {
        cols.push_back(vt::make_scalar("x0"));
        cols.push_back(vt::make_scalar("x1", feature_type::float32));
        cols.push_back(vt::make_scalar("x2"));
        cols.push_back(vt::make_scalar("y"));
        for (tensor_size_t i = 0; i < N; ++i)
        {
            const auto u  = static_cast<uint64_t>(i);
            const auto x0 = vt::generic(u, 0), x1 = static_cast<double>(static_cast<float>(vt::generic(u, 1))), x2 = vt::generic(u, 2);
            cols[0].values.push_back(std::vector<double>{x0});
            cols[1].values.push_back(std::vector<double>{x1});
            cols[2].values.push_back(std::vector<double>{x2});
            cols[3].values.push_back(std::vector<double>{0.7 * x0 - 1.3 * x1 + 0.2 + 0.01 * vt::generic(u, 3)});
        }
        out.source = std::make_unique<vt::table_datasource_t>(N, cols, 3U);
    }
    else
    {
        cols.push_back(vt::make_scalar("x0"));
        cols.push_back(vt::make_scalar("x1"));
        cols.push_back(vt::make_sclass("c0", 3));
        cols.push_back(vt::make_mclass("m0", 3));
        cols.push_back(kind == 0 ? vt::make_scalar("y") : vt::make_struct("y", feature_type::float64, make_dims(2, 1, 1)));
        for (tensor_size_t i = 0; i < N; ++i)
        {
            const auto u  = static_cast<uint64_t>(i);
            const auto x0 = vt::generic(u, 0), x1 = vt::generic(u, 1);
            const auto c0 = static_cast<double>((i * 7 + i / 3) % 3);
            cols[0].values.push_back(std::vector<double>{x0});
            if (i % 7 == 3)
            {
                cols[1].values.emplace_back(std::nullopt);
            }
            else
            {
                cols[1].values.push_back(std::vector<double>{x1});
            }
            if (i == 5)
            {
                cols[2].values.emplace_back(std::nullopt);
            }
            else
            {
                cols[2].values.push_back(std::vector<double>{c0});
            }
            cols[3].values.push_back(std::vector<double>{static_cast<double>(i % 2), static_cast<double>((i / 2) % 2),
                                                         static_cast<double>((i / 5) % 2)});
            const auto y0 = 1.5 * x0 + (c0 == 1.0 ? 1.0 : -0.25) + 0.05 * vt::generic(u, 4);
            const auto y1 = (x1 < 0.1 ? -1.0 : 2.0) + 0.3 * static_cast<double>(i % 2) + 0.05 * vt::generic(u, 5);
            if (kind == 0)
            {
                cols[4].values.push_back(std::vector<double>{y0 + 0.5 * y1});
            }
            else
            {
                cols[4].values.push_back(std::vector<double>{y0, y1});
            }
        }
        out.source = std::make_unique<vt::table_datasource_t>(N, cols, 4U);
    }
    out.source->load();
    out.dataset = std::make_unique<dataset_t>(*out.source, 1U);
    vt::add_identity_generators(*out.dataset);
    out.samples   = arange(0, N);
    out.gradients = tensor4d_t{cat_dims(N, out.dataset->target_dims())};
    {
        // gradients = -(targets) (+ a constant): the weak learners fit -gradients
        const auto& ycol = cols.back();
        const auto  w    = ::nano::size(out.dataset->target_dims());
        for (tensor_size_t i = 0; i < N; ++i)
        {
            for (tensor_size_t k = 0; k < w; ++k)
            {
                out.gradients.data()[i * w + k] = 0.125 - (*ycol.values[static_cast<size_t>(i)])[static_cast<size_t>(k)];
            }
        }
    }
    return out;
}

std::string predictions_differ(const learner_t& a, const learner_t& b, const data_t& d)
{
    const auto pa = a.predict(*d.dataset, d.samples);
    const auto pb = b.predict(*d.dataset, d.samples);
    if (!same_bits(pa, pb))
    {
        for (tensor_size_t i = 0; i < std::min(pa.size(), pb.size()); ++i)
        {
            if (std::memcmp(&pa.data()[i], &pb.data()[i], sizeof(scalar_t)) != 0)
            {
                return "output " + std::to_string(i) + ": " + hexd(pa.data()[i]) + " vs " + hexd(pb.data()[i]);
            }
        }
        return "dims differ";
    }
    return "";
}

// ---------------------------------------------------------------------------------------------------------------------
// nested spans
void spans_of_parameters(const std::string& hay, size_t& pos, const configurable_t& c, const std::string& prefix,
                         std::vector<span_t>& out, const size_t offset = 0)
{
    for (const auto& p : c.parameters())
    {
        add_span(hay, pos, bytes_of(p), prefix + "parameter", out, offset);
    }
}

void spans_of_learner(const std::string& hay, size_t& pos, const configurable_t& c, const data_t* d, const std::string& prefix,
                      std::vector<span_t>& out, const size_t offset = 0)
{
    spans_of_parameters(hay, pos, c, prefix, out, offset);
    if (d != nullptr)
    {
        for (tensor_size_t i = 0; i < d->dataset->features(); ++i)
        {
            add_span(hay, pos, bytes_of(d->dataset->feature(i)), prefix + "feature", out, offset);
        }
        add_span(hay, pos, bytes_of(d->dataset->target()), prefix + "feature", out, offset);
    }
    else
    {
        add_span(hay, pos, bytes_of(feature_t{}), prefix + "feature", out, offset);
    }
}

void spans_of_wlearner(const std::string& hay, size_t& pos, const wlearner_t& w, const data_t* d, const std::string& prefix,
                       std::vector<span_t>& out, const size_t offset = 0)
{
    spans_of_learner(hay, pos, w, d, prefix, out, offset);
    if (const auto* s = dynamic_cast<const single_feature_wlearner_t*>(&w); s != nullptr)
    {
        add_span(hay, pos, bytes_of(s->tables()), prefix + "tensor", out, offset);
        if (const auto* t = dynamic_cast<const table_wlearner_t*>(&w); t != nullptr)
        {
            add_span(hay, pos, bytes_of(t->hashes()), prefix + "tensor", out, offset);
            add_span(hay, pos, bytes_of(t->hash2tables()), prefix + "tensor", out, offset);
        }
    }
    else if (const auto* t = dynamic_cast<const dtree_wlearner_t*>(&w); t != nullptr)
    {
        for (const auto& node : t->nodes())
        {
            add_span(hay, pos, to_bytes([&](std::ostream& os) { ::nano::write(os, node); }), prefix + "dtree-node", out, offset);
        }
        add_span(hay, pos, bytes_of(t->features()), prefix + "tensor", out, offset);
        add_span(hay, pos, bytes_of(t->tables()), prefix + "tensor", out, offset);
    }
}

// ---------------------------------------------------------------------------------------------------------------------
// factory objects (written with their type id)
template <class tobject>
rentry_t factory_entry(const std::string& kind, const std::string& name_, std::unique_ptr<tobject> object,
                       const std::function<void(const tobject&, entry_t&)>& add_spans,
                       const std::function<std::string(const tobject&, const tobject&)>& extra)
{
    auto shared = std::make_shared<std::unique_ptr<tobject>>(std::move(object));
    auto e      = std::make_shared<entry_t>();
    e->kind     = kind;
    e->name     = name_;
    e->bytes    = to_bytes([&](std::ostream& os) { ::nano::write(os, *shared); });
    e->read     = [](std::istream& is)
    {
        std::unique_ptr<tobject> x;
        ::nano::read(is, x);
    };
    add_spans(**shared, *e);
    e->roundtrip = [shared, extra](const entry_t& self) -> std::string
    {
        const auto&              orig = **shared;
        std::unique_ptr<tobject> x;
        const auto res = guarded(self.bytes.data(), self.bytes.size(), [&](std::istream& is) { ::nano::read(is, x); });
        if (res.what != rd::ok)
        {
            return std::string("full-stream-rejected|") + name(res.what) + " " + res.message;
        }
        if (res.consumed != self.bytes.size())
        {
            return "reader-consumed-different-length|" + std::to_string(res.consumed);
        }
        if (!x)
        {
            return "null-object|";
        }
        if (x->type_id() != orig.type_id() || typeid(*x) != typeid(orig))
        {
            return "type-differs|" + x->type_id();
        }
        if (repr(x->parameters()) != repr(orig.parameters()))
        {
            return "parameters-differ|" + repr(x->parameters()) + " vs " + repr(orig.parameters());
        }
        if (to_bytes([&](std::ostream& os) { ::nano::write(os, x); }) != self.bytes)
        {
            return "rewrite-differs|";
        }
        return extra ? extra(orig, *x) : std::string();
    };
    return e;
}

template <class tobject>
void spans_config_only(const tobject& object, entry_t& e)
{
    size_t pos = 0;
    spans_of_parameters(e.bytes, pos, object, "", e.nested);
}

std::string wlearner_extra(const wlearner_t& a, const wlearner_t& b, const data_t* d)
{
    if (!same_bits(a.features(), b.features()))
    {
        return "features-differ|";
    }
    if (d != nullptr)
    {
        const auto diff = predictions_differ(a, b, *d);
        if (!diff.empty())
        {
            return "predictions-differ|" + diff;
        }
        const auto ca = a.split(*d->dataset, d->samples), cb = b.split(*d->dataset, d->samples);
        if (ca.groups() != cb.groups())
        {
            return "split-differs|";
        }
        for (tensor_size_t g = 0; g < ca.groups(); ++g)
        {
            if (!same_bits(ca.indices(g), cb.indices(g)))
            {
                return "split-differs|group " + std::to_string(g);
            }
        }
    }
    return "";
}

// ---------------------------------------------------------------------------------------------------------------------
// the corpus: a fixed list of recipes (objects are built lazily, the fitted ones only in the shard that needs them)
struct recipe_t
{
    std::string               kind;
    bool                      model{false}; ///< large fitted object: its prefixes are split over several cases
    std::function<rentry_t()> make;
};

ml::params_t cheap_fit_params()
{
    auto splitter                          = splitter_t::all().get("k-fold");
    splitter->parameter("splitter::folds") = 2;
    auto tuner                             = tuner_t::all().get("local-search");
    tuner->parameter("tuner::max_evals")   = 10;
    auto solver                            = solver_t::all().get("lbfgs");
    solver->parameter("solver::max_evals") = 100;
    return ml::params_t{}.splitter(*splitter).tuner(*tuner).solver(*solver).logger(make_null_logger());
}

template <class tfactory_object>
void add_factory(std::vector<recipe_t>& corpus, const std::string& base)
{
    for (const auto& id : tfactory_object::all().ids())
    {
        for (const int modified : {0, 1})
        {
            corpus.push_back({"factory:" + base, false,
                              [=]()
                              {
                                  auto object = tfactory_object::all().get(id);
                                  int  nmod   = 0;
                                  if (modified != 0)
                                  {
                                      nmod = modify(*object);
                                  }
                                  return factory_entry<tfactory_object>(
                                      "factory:" + base, base + ":" + id + (modified ? ":modified(" + std::to_string(nmod) + ")" : ":default"),
                                      std::move(object), &spans_config_only<tfactory_object>, nullptr);
                              }});
        }
    }
}

// a solver configured with non-default line-search objects: the configuration is part of the object
void add_configured_solvers(std::vector<recipe_t>& corpus)
{
    for (const std::string id : {"lbfgs", "cgd-pr", "gd", "bfgs"})
    {
        corpus.push_back({"factory:solver", false,
                          [=]()
                          {
                              auto object = solver_t::all().get(id);
                              auto ls0    = lsearch0_t::all().get("constant");
                              ls0->parameter("lsearch0::constant::t0") = 0.5;
                              object->lsearch0(*ls0);
                              object->lsearchk("backtrack");
                              return factory_entry<solver_t>(
                                  "factory:solver", "solver:" + id + ":lsearch0=constant(t0=0.5),lsearchk=backtrack", std::move(object),
                                  &spans_config_only<solver_t>,
                                  [](const solver_t& a, const solver_t& b)
                                  {
                                      if (a.lsearch0().type_id() != b.lsearch0().type_id() ||
                                          repr(a.lsearch0().parameters()) != repr(b.lsearch0().parameters()))
                                      {
                                          return "configured-line-search-lost|lsearch0 " + a.lsearch0().type_id() + " read back as " +
                                                 b.lsearch0().type_id();
                                      }
                                      if (a.lsearchk().type_id() != b.lsearchk().type_id() ||
                                          repr(a.lsearchk().parameters()) != repr(b.lsearchk().parameters()))
                                      {
                                          return "configured-line-search-lost|lsearchk " + a.lsearchk().type_id() + " read back as " +
                                                 b.lsearchk().type_id();
                                      }
                                      return std::string();
                                  });
                          }});
    }
}

rwlearner_t fitted_wlearner(const std::string& id, const int dkind, const int variant)
{
    const auto& d = data(dkind);
    // NB: a decision tree needs every node to be splittable; the first configuration of this list that fits is used
    const std::vector<std::pair<wlearner_criterion, int>> configs =
        id == "dtree" ? std::vector<std::pair<wlearner_criterion, int>>{{wlearner_criterion::aicc, 3}, {wlearner_criterion::bic, 3},
                                                                         {wlearner_criterion::aicc, 2}, {wlearner_criterion::rss, 2},
                                                                         {wlearner_criterion::aicc, 1}}
        : variant == 1 ? std::vector<std::pair<wlearner_criterion, int>>{{wlearner_criterion::rss, 0}}
                       : std::vector<std::pair<wlearner_criterion, int>>{{wlearner_criterion::aicc, 0}};
    for (size_t i = static_cast<size_t>(id == "dtree" ? variant : 0); i < configs.size(); ++i)
    {
        auto w                              = wlearner_t::all().get(id);
        w->parameter("wlearner::criterion") = configs[i].first;
        if (id == "dtree")
        {
            w->parameter("wlearner::dtree::max_depth") = configs[i].second;
        }
        const auto score = w->fit(*d.dataset, d.samples, d.gradients);
        if (score != wlearner_t::no_fit_score() && std::isfinite(score))
        {
            return w;
        }
    }
    std::fprintf(stderr, "c15: weak learner %s could not be fitted on harness dataset %d\n", id.c_str(), dkind);
    std::exit(2);
}

rentry_t wlearner_entry(const std::string& id, const int dkind, const int variant)
{
    const auto* d     = &data(dkind);
    auto        w     = fitted_wlearner(id, dkind, variant);
    std::string extra = ":criterion=" + scat(w->parameter("wlearner::criterion").value<wlearner_criterion>());
    if (const auto* t = dynamic_cast<const dtree_wlearner_t*>(w.get()); t != nullptr)
    {
        extra += ":nodes=" + std::to_string(t->nodes().size());
    }
    return factory_entry<wlearner_t>(
        "wlearner", "fitted-wlearner:" + id + ":data" + std::to_string(dkind) + extra, std::move(w),
        [d](const wlearner_t& w, entry_t& e)
        {
            size_t pos = 0;
            spans_of_wlearner(e.bytes, pos, w, d, "", e.nested);
        },
        [d](const wlearner_t& a, const wlearner_t& b) { return wlearner_extra(a, b, d); });
}

rentry_t linear_entry(const std::string& id, const int variant)
{
    const auto* d     = &data(2);
    auto        model = linear_t::all().get(id);
    if (variant == 1)
    {
        model->parameter("linear::scaling") = scaling_type::minmax;
        model->parameter("linear::batch")   = 10;
    }
    const auto loss = loss_t::all().get(variant == 0 ? "mse" : "mae");
    model->fit(*d->dataset, d->samples, *loss, cheap_fit_params());
    if (model->weights().size() != 3 || model->bias().size() != 1)
    {
        std::fprintf(stderr, "c15: linear model %s has unexpected parameters\n", id.c_str());
        std::exit(2);
    }
    return factory_entry<linear_t>(
        "linear", "fitted-linear:" + id + ":variant" + std::to_string(variant), std::move(model),
        [d](const linear_t& m, entry_t& e)
        {
            size_t pos = 0;
            spans_of_learner(e.bytes, pos, m, d, "", e.nested);
            add_span(e.bytes, pos, bytes_of(m.bias()), "tensor", e.nested);
            add_span(e.bytes, pos, bytes_of(m.weights()), "tensor", e.nested);
        },
        [d](const linear_t& a, const linear_t& b) -> std::string
        {
            if (!same_bits(a.bias(), b.bias()) || !same_bits(a.weights(), b.weights()))
            {
                return "weights-differ|";
            }
            const auto diff = predictions_differ(a, b, *d);
            return diff.empty() ? std::string() : "predictions-differ|" + diff;
        });
}

rentry_t gboost_entry(const int variant)
{
    const int   dkind = variant == 1 ? 1 : 0;
    const auto* d     = &data(dkind);
    auto        model = std::make_shared<gboost_model_t>();
    model->parameter("gboost::max_rounds") = 10;
    model->parameter("gboost::patience")   = 10;
    model->parameter("gboost::epsilon")    = 1e-6;
    rwlearners_t protos;
    if (variant == 0)
    {
        protos.emplace_back(wlearner_t::all().get("affine"));
        protos.emplace_back(wlearner_t::all().get("dense-table"));
    }
    else if (variant == 1)
    {
        protos.emplace_back(wlearner_t::all().get("stump"));
        protos.emplace_back(wlearner_t::all().get("hinge"));
        protos.emplace_back(wlearner_t::all().get("kbest-table"));
    }
    else
    {
        for (const auto& id : wlearner_t::all().ids())
        {
            protos.emplace_back(wlearner_t::all().get(id));
        }
        model->parameter("gboost::wscale") = gboost_wscale::tboost;
    }
    model->prototypes(std::move(protos));
    const auto loss = loss_t::all().get("mse");
    model->fit(*d->dataset, d->samples, *loss, cheap_fit_params());
    if (model->wlearners().empty())
    {
        std::fprintf(stderr, "c15: gboost variant %d selected no weak learner\n", variant);
        std::exit(2);
    }

    auto e   = std::make_shared<entry_t>();
    e->kind  = "gboost";
    e->name  = "fitted-gboost:variant" + std::to_string(variant) + ":wlearners=";
    for (const auto& w : model->wlearners())
    {
        e->name += w->type_id() + ",";
    }
    e->name += ":prototypes=" + std::to_string(model->prototypes().size());
    e->bytes = bytes_of(*model);
    e->read  = [](std::istream& is)
    {
        gboost_model_t x;
        ::nano::read(is, x);
    };
    {
        size_t pos = 0;
        spans_of_learner(e->bytes, pos, *model, d, "", e->nested);
        add_span(e->bytes, pos, bytes_of(model->bias()), "tensor", e->nested);
        for (const auto* list : {&model->wlearners(), &model->prototypes()})
        {
            const auto fitted = list == &model->wlearners();
            for (const auto& w : *list)
            {
                const auto wbytes = to_bytes([&](std::ostream& os) { ::nano::write(os, w); });
                auto       start  = pos;
                add_span(e->bytes, pos, wbytes, "wlearner", e->nested);
                start       = e->nested.back().begin;
                size_t wpos = 0;
                spans_of_wlearner(wbytes, wpos, *w, fitted ? d : nullptr, "wlearner/", e->nested, start);
            }
        }
    }
    e->roundtrip = [model, d](const entry_t& self) -> std::string
    {
        gboost_model_t x;
        const auto     res = guarded(self.bytes.data(), self.bytes.size(), [&](std::istream& is) { ::nano::read(is, x); });
        if (res.what != rd::ok)
        {
            return std::string("full-stream-rejected|") + name(res.what) + " " + res.message;
        }
        if (res.consumed != self.bytes.size())
        {
            return "reader-consumed-different-length|" + std::to_string(res.consumed);
        }
        if (repr(x.parameters()) != repr(model->parameters()))
        {
            return "parameters-differ|";
        }
        if (!same_bits(x.bias(), model->bias()))
        {
            return "bias-differs|";
        }
        if (x.wlearners().size() != model->wlearners().size() || x.prototypes().size() != model->prototypes().size())
        {
            return "wlearner-count-differs|";
        }
        for (size_t i = 0; i < x.wlearners().size(); ++i)
        {
            const auto& a = *model->wlearners()[i];
            const auto& b = *x.wlearners()[i];
            if (a.type_id() != b.type_id() || typeid(a) != typeid(b) || repr(a.parameters()) != repr(b.parameters()))
            {
                return "wlearner-differs|" + std::to_string(i);
            }
            const auto diff = wlearner_extra(a, b, d);
            if (!diff.empty())
            {
                return "wlearner-" + diff;
            }
        }
        for (size_t i = 0; i < x.prototypes().size(); ++i)
        {
            const auto& a = *model->prototypes()[i];
            const auto& b = *x.prototypes()[i];
            if (a.type_id() != b.type_id() || repr(a.parameters()) != repr(b.parameters()))
            {
                return "prototype-differs|" + std::to_string(i);
            }
        }
        if (!same_bits(x.features(), model->features()))
        {
            return "features-differ|";
        }
        const auto diff = predictions_differ(*model, x, *d);
        if (!diff.empty())
        {
            return "predictions-differ|" + diff;
        }
        if (bytes_of(x) != self.bytes)
        {
            return "rewrite-differs|";
        }
        return "";
    };
    return e;
}

struct corpus_t
{
    std::vector<recipe_t>                   recipes;
    std::vector<std::vector<tensor_size_t>> shapes;
    size_t                                  tensors_begin{0}, tensors_end{0};
    std::map<std::string, uint64_t>         by_kind;
};

corpus_t make_corpus(const args_t& args)
{
    corpus_t c;
    auto&    corpus = c.recipes;

    // parameters, features and vectors of them
    const auto params = corpus_parameters();
    for (size_t i = 0; i < params.size(); ++i)
    {
        const auto p = params[i];
        corpus.push_back({"parameter", false,
                          [p]()
                          {
                              return value_entry<parameter_t>("parameter", "parameter:" + repr(p), p,
                                                              [](const parameter_t& q) { return repr(q); });
                          }});
    }
    const auto feats = corpus_features();
    for (const auto& f : feats)
    {
        corpus.push_back({"feature", false,
                          [f]() {
                              return value_entry<feature_t>("feature", "feature:" + repr(f), f,
                                                            [](const feature_t& q) { return repr(q); });
                          }});
    }
    corpus.push_back({"vector", false,
                      [params]()
                      {
                          auto e = value_entry<parameters_t>("vector", "vector<parameter>(" + std::to_string(params.size()) + ")",
                                                             params, [](const parameters_t& q) { return repr(q); });
                          size_t pos = 0;
                          for (const auto& p : params)
                          {
                              add_span(e->bytes, pos, bytes_of(p), "parameter", e->nested);
                          }
                          return e;
                      }});
    corpus.push_back({"vector", false,
                      [feats]()
                      {
                          const auto text = [](const features_t& q)
                          {
                              std::string o;
                              for (const auto& f : q)
                              {
                                  o += repr(f);
                              }
                              return o;
                          };
                          auto   e   = value_entry<features_t>("vector", "vector<feature>(" + std::to_string(feats.size()) + ")", feats, text);
                          size_t pos = 0;
                          for (const auto& f : feats)
                          {
                              add_span(e->bytes, pos, bytes_of(f), "feature", e->nested);
                          }
                          return e;
                      }});
    corpus.push_back({"vector", false,
                      []()
                      {
                          return value_entry<parameters_t>("vector", "vector<parameter>(0)", parameters_t{},
                                                           [](const parameters_t& q) { return repr(q); });
                      }});
    corpus.push_back({"vector", false,
                      []()
                      {
                          const strings_t strings = {"", "a", "two words", std::string(300, 'x')};
                          const auto      text    = [](const strings_t& q)
                          {
                              std::string o;
                              for (const auto& s : q)
                              {
                                  o += std::to_string(s.size()) + ":" + s + ",";
                              }
                              return o;
                          };
                          auto e = std::make_shared<entry_t>();
                          e->kind  = "vector";
                          e->name  = "vector<string>(4)";
                          e->bytes = to_bytes([&](std::ostream& os) { ::nano::write(os, strings); });
                          e->read  = [](std::istream& is)
                          {
                              strings_t x;
                              ::nano::read(is, x);
                          };
                          const auto expected = text(strings);
                          e->roundtrip        = [expected, text](const entry_t& self) -> std::string
                          {
                              strings_t  x;
                              const auto res = guarded(self.bytes.data(), self.bytes.size(), [&](std::istream& is) { ::nano::read(is, x); });
                              if (res.what != rd::ok || res.consumed != self.bytes.size())
                              {
                                  return "full-stream-rejected|";
                              }
                              return text(x) == expected ? std::string() : std::string("value-differs|");
                          };
                          return e;
                      }});

    // factory objects: default and modified configuration
    add_factory<solver_t>(corpus, "solver");
    add_configured_solvers(corpus);
    add_factory<loss_t>(corpus, "loss");
    add_factory<splitter_t>(corpus, "splitter");
    add_factory<tuner_t>(corpus, "tuner");
    add_factory<lsearch0_t>(corpus, "lsearch0");
    add_factory<lsearchk_t>(corpus, "lsearchk");

    // unfitted weak learners and linear models (what gboost stores as prototypes)
    for (const auto& id : wlearner_t::all().ids())
    {
        for (const int modified : {0, 1})
        {
            corpus.push_back({"factory:wlearner", false,
                              [=]()
                              {
                                  auto w = wlearner_t::all().get(id);
                                  if (modified != 0)
                                  {
                                      modify(*w);
                                  }
                                  return factory_entry<wlearner_t>(
                                      "factory:wlearner", "unfitted-wlearner:" + id + (modified ? ":modified" : ":default"), std::move(w),
                                      [](const wlearner_t& x, entry_t& e)
                                      {
                                          size_t pos = 0;
                                          spans_of_wlearner(e.bytes, pos, x, nullptr, "", e.nested);
                                      },
                                      [](const wlearner_t& a, const wlearner_t& b) { return wlearner_extra(a, b, nullptr); });
                              }});
        }
    }
    for (const auto& id : linear_t::all().ids())
    {
        corpus.push_back({"factory:linear", false,
                          [=]()
                          {
                              return factory_entry<linear_t>(
                                  "factory:linear", "unfitted-linear:" + id, linear_t::all().get(id),
                                  [](const linear_t& x, entry_t& e)
                                  {
                                      size_t pos = 0;
                                      spans_of_learner(e.bytes, pos, x, nullptr, "", e.nested);
                                  },
                                  nullptr);
                          }});
    }

    // tensors
    const auto thorough = args.thorough();
    const auto maxrank  = static_cast<size_t>(args.geti("maxrank", 5));
    const auto dim_hi   = static_cast<tensor_size_t>(args.geti("maxdim", 3));
    const auto dim_lo   = static_cast<tensor_size_t>(args.geti("maxdim_low_rank", thorough ? 6 : dim_hi));
    const auto dim_r4   = static_cast<tensor_size_t>(args.geti("maxdim_rank4", thorough ? 4 : dim_hi));
    for (size_t rank = 1; rank <= maxrank; ++rank)
    {
        add_shapes(c.shapes, rank, rank <= 3 ? dim_lo : rank == 4 ? dim_r4 : dim_hi);
    }
    c.tensors_begin = corpus.size();
    for (size_t s = 0; s < c.shapes.size(); ++s)
    {
        for (size_t type = 0; type < SCALARS.size(); ++type)
        {
            const auto* shapes = &c.shapes;
            // NB: the content of a tensor is a fixed function of (position of its shape in the tier's shape list, scalar
            //     type, element index): no randomness, the same bytes in every run and every shard. Violation keys that name
            //     an input (accepted payload corruptions) stay valid as long as the shape lattice of the tier is not changed.
            corpus.push_back({"tensor", false, [=]() { return make_tensor(type, (*shapes)[s], s * 10 + type); }});
        }
    }
    c.tensors_end = corpus.size();

    // fitted objects
    if (args.geti("models", 1) != 0)
    {
        for (const auto& id : wlearner_t::all().ids())
        {
            for (const int dkind : {0, 1})
            {
                corpus.push_back({"wlearner", true, [=]() { return wlearner_entry(id, dkind, dkind); }});
            }
        }
        for (const auto& id : linear_t::all().ids())
        {
            corpus.push_back({"linear", true, [=]() { return linear_entry(id, 0); }});
            if (thorough)
            {
                corpus.push_back({"linear", true, [=]() { return linear_entry(id, 1); }});
            }
        }
        for (int variant = 0; variant < 3; ++variant)
        {
            corpus.push_back({"gboost", true, [=]() { return gboost_entry(variant); }});
        }
    }
    for (const auto& r : corpus)
    {
        c.by_kind[r.kind] += 1;
    }
    return c;
}

std::string corpus_axis(const corpus_t& c)
{
    std::string o = "{";
    for (const auto& [k, n] : c.by_kind)
    {
        o += jstr(k) + ":" + std::to_string(n) + ",";
    }
    return o + jstr("total") + ":" + std::to_string(c.recipes.size()) + "}";
}

// a unit of the truncation stage: (object, residue class of the offsets); small objects have one unit
constexpr uint64_t SPLIT = 16;

struct units_t
{
    std::vector<size_t> small;  ///< object indices with one unit
    std::vector<size_t> models; ///< object indices with SPLIT units
    uint64_t            size() const { return small.size() + SPLIT * models.size(); }
    void decode(const uint64_t unit, size_t& object, uint64_t& residue, uint64_t& modulus) const
    {
        if (unit < small.size())
        {
            object  = small[unit];
            residue = 0;
            modulus = 1;
        }
        else
        {
            const auto u = unit - small.size();
            object       = models[u / SPLIT];
            residue      = u % SPLIT;
            modulus      = SPLIT;
        }
    }
};

rentry_t build(const corpus_t& c, const size_t object)
{
    // cache of the fitted objects of this process (several units refer to the same object)
    static std::map<size_t, rentry_t> cache;
    const auto&                       recipe = c.recipes[object];
    if (!recipe.model)
    {
        return recipe.make();
    }
    auto& slot = cache[object];
    if (!slot)
    {
        slot = recipe.make();
    }
    return slot;
}

void announce(const std::string& tag, const uint64_t index)
{
    std::fprintf(stderr, "CASE %s:%llu\n", tag.c_str(), static_cast<unsigned long long>(index));
    std::fflush(stderr);
}

const char* const PATTERN_NAMES[] = {"^0x01", "^0x80", "~b"};

/// "[d0xd1x...]" of a dims list
std::string dims_text(const std::vector<tensor_size_t>& dims)
{
    std::string o = "[";
    for (size_t i = 0; i < dims.size(); ++i)
    {
        o += (i ? "x" : "") + std::to_string(dims[i]);
    }
    return o + "]";
}

const char* tensor_field(const size_t rank, const size_t p)
{
    const auto dims_end = 8 + 4 * rank;
    return p < 4 ? "version" : p < 8 ? "rank" : p < dims_end ? "dims" : p < dims_end + 4 ? "sizeof-scalar" : p < dims_end + 12 ? "hash" : "payload";
}

/// The one accepted corruption that is NOT judged (coordinator's decision, see the check's assumptions): a byte of the
/// dims field of a tensor WITHOUT elements was altered and the reader produced another well-formed empty tensor (all dims
/// >= 0, no elements). The statement promises failure for altered payload bytes and strict prefixes; here there is no
/// payload to protect. Everything else that is accepted (payload, any field of a non-empty tensor, a negative dim) is a
/// violation.
bool reshaped_empty_tensor(const std::string& field, const bool original_empty, const std::vector<tensor_size_t>& dims_back)
{
    if (field != "dims" || !original_empty || dims_back.empty())
    {
        return false;
    }
    bool has_zero = false;
    for (const auto dim : dims_back)
    {
        if (dim < 0)
        {
            return false;
        }
        has_zero = has_zero || dim == 0;
    }
    return has_zero;
}

std::vector<tensor_size_t> header_dims(const std::string& bytes, const size_t tensor_begin, const size_t rank)
{
    std::vector<tensor_size_t> dims;
    for (size_t i = 0; i < rank; ++i)
    {
        int32_t dim = 0;
        std::memcpy(&dim, bytes.data() + tensor_begin + 8 + 4 * i, sizeof(dim));
        dims.push_back(dim);
    }
    return dims;
}

bool self_test()
{
    // (0) only the reshaped empty tensor is exempt from judgement
    if (!reshaped_empty_tensor("dims", true, {1, 0}) || !reshaped_empty_tensor("dims", true, {0, 255, 3}) ||
        reshaped_empty_tensor("dims", true, {-2147483647 - 1, 0}) || reshaped_empty_tensor("dims", true, {0, -1}) ||
        reshaped_empty_tensor("dims", false, {1, 0}) || reshaped_empty_tensor("dims", true, {1, 2}) ||
        reshaped_empty_tensor("hash", true, {1, 0}) || reshaped_empty_tensor("payload", true, {0}) ||
        reshaped_empty_tensor("dims", true, {}))
    {
        return false;
    }
    // (1) the judge must flag a reader that accepts a strict prefix (here: a reader that reads nothing)
    const std::string bytes = "0123456789";
    const auto        lazy  = guarded(bytes.data(), 4, [](std::istream&) {});
    if (!is_silent_success(lazy))
    {
        return false;
    }
    // (2) ... and must not flag the three ways of rejecting
    const auto failed = guarded(bytes.data(), 4, [](std::istream& is) { uint64_t v = 0; ::nano::read(is, v); });
    const auto thrown = guarded(bytes.data(), 4, [](std::istream&) { throw std::runtime_error("x"); });
    const auto alloc  = guarded(bytes.data(), 4, [](std::istream&) { throw std::bad_alloc(); });
    if (is_silent_success(failed) || is_silent_success(thrown) || is_silent_success(alloc) || failed.what != rd::failbit ||
        failed.consumed != 4)
    {
        return false;
    }
    // (3) the comparisons of the round trip must see a one-bit difference / a flipped comparator
    tensor_mem_t<double, 2> a(2, 2), b(2, 2), c2(4, 1);
    a.zero();
    b.zero();
    c2.zero();
    b(1, 1) = -0.0;
    if (same_bits(a, b) || same_bits(a, c2) || !same_bits(a, a))
    {
        return false;
    }
    const auto p1 = parameter_t::make_scalar("p", 0, LE, 0.5, LE, 1);
    const auto p2 = parameter_t::make_scalar("p", 0, LT, 0.5, LE, 1);
    const auto p3 = parameter_t::make_scalar("p", 0, LE, std::nextafter(0.5, 1.0), LE, 1);
    if (repr(p1) == repr(p2) || repr(p1) == repr(p3) || repr(p1) != repr(parameter_t::make_scalar("p", 0, LE, 0.5, LE, 1)))
    {
        return false;
    }
    if (repr(feature_t{"f"}.sclass(strings_t{"a", "b"})) == repr(feature_t{"f"}.sclass(strings_t{"a", "c"})) ||
        repr(feature_t{"f"}.scalar(feature_type::int8)) == repr(feature_t{"f"}.scalar(feature_type::uint8)))
    {
        return false;
    }
    // (4) span classification
    entry_t e;
    e.kind   = "x";
    e.nested = {{2, 10, "outer"}, {4, 6, "outer/inner"}};
    return where_of(e, 5) == "inside-nested-outer/inner" && where_of(e, 3) == "inside-nested-outer" &&
           where_of(e, 2) == "top-level-field" && where_of(e, 10) == "top-level-field";
}
} // namespace

int main(int argc, char** argv)
{
    const auto args  = parse_args(argc, argv);
    const auto stage = args.stage.empty() ? "roundtrip" : args.stage;
    report_t   r("c15/" + stage, args);

    if (const auto mb = args.geti("rlimit-mb", 0); mb > 0)
    {
        rlimit lim{};
        lim.rlim_cur = lim.rlim_max = static_cast<rlim_t>(mb) * 1024U * 1024U;
        if (setrlimit(RLIMIT_AS, &lim) != 0)
        {
            std::fprintf(stderr, "c15: setrlimit(RLIMIT_AS) failed\n");
            return 2;
        }
        r.note("address_space_cap_mb", jstr(std::to_string(mb)));
    }

    if (!self_test())
    {
        std::fprintf(stderr, "oracle self-test failed\n");
        return 2;
    }

    const auto corpus = make_corpus(args);
    r.axis("corpus.objects_by_kind", corpus_axis(corpus));
    r.axis("tensor.scalar_types", jarr_str(SCALARS));
    r.axis("tensor.shapes", jobj({{"count", jint(corpus.shapes.size())},
                                  {"rule", jstr("every shape of rank 1.." + std::to_string(args.geti("maxrank", 5)) +
                                                " with dims in 0.." + std::to_string(args.geti("maxdim_low_rank", args.thorough() ? 6 : args.geti("maxdim", 3))) +
                                                " (rank<=3) / 0.." + std::to_string(args.geti("maxdim_rank4", args.thorough() ? 4 : args.geti("maxdim", 3))) + " (rank 4) / 0.." +
                                                std::to_string(args.geti("maxdim", 3)) + " (rank 5)")}}));

    uint64_t                        bytes_total = 0, objects_done = 0;
    std::map<std::string, uint64_t> objects_by_kind, bytes_by_kind;
    const auto                      account = [&](const entry_t& e)
    {
        bytes_total += e.bytes.size();
        objects_done += 1;
        objects_by_kind[e.kind] += 1;
        bytes_by_kind[e.kind] += e.bytes.size();
    };

    if (stage == "roundtrip")
    {
        lattice_t lat;
        lat.axis("object", corpus.recipes.size(), corpus_axis(corpus));
        lat.describe(r, "roundtrip.");
        for_each_case(lat, r, "rt", [&](const uint64_t index, const std::vector<uint64_t>&) {
            announce("rt", index);
            const auto e = build(corpus, index);
            account(*e);
            r.evaluations += 1;
            const auto verdict = e->roundtrip(*e);
            const bool fitted  = e->kind == "wlearner" || e->kind == "linear" || e->kind == "gboost";
            // non-trivial: an object with state beyond defaults (non-empty tensor, modified or fitted object, nested parts)
            if ((e->kind == "tensor" && !e->empty_tensor) || fitted || !e->nested.empty())
            {
                ++r.nontrivial;
            }
            r.outcome(verdict.empty() ? "identical:" + e->kind : "differs:" + e->kind);
            if (!verdict.empty())
            {
                const auto bar = verdict.find('|');
                r.violation("roundtrip:" + e->kind + ":" + verdict.substr(0, bar), "rt:" + std::to_string(index),
                            jobj({{"object", jstr(e->name)}, {"bytes", jint(e->bytes.size())}, {"observed", jstr(verdict.substr(bar + 1))}}));
            }
            if (index % 997 == 0 || fitted)
            {
                r.sample(jobj({{"object", jstr(e->name)}, {"bytes", jint(e->bytes.size())}, {"nested_objects", jint(e->nested.size())}}));
            }
        });
    }
    else if (stage == "truncate")
    {
        units_t units;
        for (size_t i = 0; i < corpus.recipes.size(); ++i)
        {
            (corpus.recipes[i].model ? units.models : units.small).push_back(i);
        }
        lattice_t lat;
        lat.axis("object x offset-class", units.size(),
                 jobj({{"objects", corpus_axis(corpus)},
                       {"offsets", jstr("every k in [0,len) of every object; fitted objects are split into " + std::to_string(SPLIT) +
                                        " cases by k mod " + std::to_string(SPLIT))}}));
        lat.describe(r, "truncate.");
        uint64_t nested_prefixes = 0;
        for_each_case(lat, r, "tr", [&](const uint64_t index, const std::vector<uint64_t>&) {
            announce("tr", index);
            size_t   object  = 0;
            uint64_t residue = 0, modulus = 1;
            units.decode(index, object, residue, modulus);
            const auto e   = build(corpus, object);
            const auto len = e->bytes.size();
            if (residue == 0)
            {
                account(*e);
                // sanity: the complete stream is accepted and consumed completely
                const auto full = guarded(e->bytes.data(), len, e->read);
                if (full.what != rd::ok || full.consumed != len)
                {
                    r.violation("roundtrip:" + e->kind + ":full-stream-rejected", "tr:" + std::to_string(index),
                                jobj({{"object", jstr(e->name)}, {"observed", jstr(name(full.what))}, {"consumed", jint(full.consumed)}}));
                }
            }
            std::map<std::string, uint64_t> local;
            for (size_t k = residue; k < len; k += modulus)
            {
                const auto res   = guarded(e->bytes.data(), k, e->read);
                const auto where = where_of(*e, k);
                r.evaluations += 1;
                if (where.rfind("inside-nested-", 0) == 0)
                {
                    ++r.nontrivial;
                    ++nested_prefixes;
                }
                local[std::string(name(res.what)) + "/" + where] += 1;
                if (is_silent_success(res))
                {
                    r.violation("truncate:prefix-accepted:" + e->kind + ":" + where, "tr:" + std::to_string(index),
                                jobj({{"object", jstr(e->name)}, {"stream_bytes", jint(len)}, {"prefix_bytes", jint(k)},
                                      {"bytes_consumed", jint(res.consumed)}, {"prefix_ends", jstr(where)},
                                      {"observed", jstr("reader returned without exception, stream not failed")},
                                      {"expected", jstr("exception or failed stream")}}));
                }
            }
            for (const auto& [k, n] : local)
            {
                r.outcome(k, n);
            }
            if (index % 997 == 0 || (modulus > 1 && residue == 0))
            {
                r.sample(jobj({{"object", jstr(e->name)}, {"bytes", jint(len)}, {"nested_objects", jint(e->nested.size())},
                               {"prefixes", jstr(modulus > 1 ? "k mod 16 == 0" : "all")}}));
            }
        });
        r.note("prefixes_inside_nested_objects", jint(nested_prefixes));
    }
    else if (stage == "corrupt")
    {
        const auto ntensors = corpus.tensors_end - corpus.tensors_begin;
        lattice_t  lat;
        lat.axis("tensor", ntensors, jobj({{"scalars", jarr_str(SCALARS)}, {"shapes", jint(corpus.shapes.size())}}));
        lat.describe(r, "corrupt.");
        r.axis("corrupt.positions", jstr("every byte of the stream (header and payload)"));
        r.axis("corrupt.patterns", jstr("[b^0x01, b^0x80, ~b]"));
        uint64_t header_cases = 0, payload_cases = 0;
        for_each_case(lat, r, "co", [&](const uint64_t index, const std::vector<uint64_t>&) {
            announce("co", index);
            const auto e = build(corpus, corpus.tensors_begin + index);
            account(*e);
            auto       bytes = e->bytes;
            const auto len   = bytes.size();
            std::map<std::string, uint64_t> local;
            // sanity: the unmodified stream is accepted
            if (guarded(bytes.data(), len, e->read).what != rd::ok)
            {
                r.violation("roundtrip:tensor:full-stream-rejected", "co:" + std::to_string(index), jobj({{"object", jstr(e->name)}}));
            }
            for (size_t p = 0; p < len; ++p)
            {
                const auto original = bytes[p];
                const auto field    = std::string(tensor_field(e->rank, p));
                for (const int pattern : {0, 1, 2})
                {
                    const auto ub = static_cast<unsigned char>(original);
                    bytes[p]      = static_cast<char>(pattern == 0 ? (ub ^ 0x01U) : pattern == 1 ? (ub ^ 0x80U) : (~ub & 0xFFU));
                    const auto res = guarded(bytes.data(), len, e->read);
                    r.evaluations += 1;
                    (field == "payload" ? payload_cases : header_cases) += 1;
                    // non-trivial: the altered byte does not break a trivially checked constant (version/rank/sizeof)
                    if (field == "payload" || field == "hash" || field == "dims")
                    {
                        ++r.nontrivial;
                    }
                    if (!is_silent_success(res))
                    {
                        local[std::string(name(res.what)) + "/" + field] += 1;
                        continue;
                    }
                    // accepted: what did the reader produce?
                    const auto dims_back = e->read_back_dims(bytes.data(), len);
                    if (reshaped_empty_tensor(field, e->empty_tensor, dims_back))
                    {
                        local["accepted:empty-tensor-reshaped(not judged)/" + field] += 1;
                        --r.nontrivial; // not judged => not counted
                        continue;
                    }
                    local["accepted/" + field] += 1;
                    {
                        const auto          hdims    = header_dims(bytes, 0, e->rank);
                        std::vector<double> cdims(hdims.begin(), hdims.end());
                        const bool          negative = std::any_of(dims_back.begin(), dims_back.end(), [](const auto d) { return d < 0; });
                        // NB: an accepted payload change is a collision of the content hash: the key names the exact input
                        //     (the corpus content is a fixed function of the case number), so that a recorded collision never
                        //     hides another one
                        const auto key = field == "dims" && e->empty_tensor
                                           ? std::string("corrupt:accepted:dims:empty-tensor") + (negative ? ":negative-dim" : "")
                                       : field == "payload"
                                           ? "corrupt:accepted:payload:" + e->name + "@" + std::to_string(p) + ":" + PATTERN_NAMES[pattern]
                                           : "corrupt:accepted:" + field;
                        r.violation(key, "co:" + std::to_string(index),
                                    jobj({{"object", jstr(e->name)}, {"stream_bytes", jint(len)}, {"byte_offset", jint(p)},
                                          {"field", jstr(field)}, {"pattern", jstr(PATTERN_NAMES[pattern])}, {"original_byte", jint(ub)},
                                          {"corrupted_byte", jint(static_cast<unsigned char>(bytes[p]))},
                                          {"header_hex", jstr(hex(bytes, 0, 20 + 4 * e->rank))},
                                          {"dims_in_corrupted_header", jarr_num(cdims)},
                                          {"dims_read_back", jarr_num(dims_back)},
                                          {"observed", jstr("corrupted stream read successfully")},
                                          {"expected", jstr("failed stream")}}));
                    }
                }
                bytes[p] = original;
            }
            for (const auto& [k, n] : local)
            {
                r.outcome(k, n);
            }
            if (index % 997 == 0)
            {
                r.sample(jobj({{"object", jstr(e->name)}, {"bytes", jint(len)}, {"corruptions", jint(3 * len)}}));
            }
        });
        r.note("header_corruptions", jint(header_cases));
        r.note("payload_corruptions", jint(payload_cases));

        // the tensors nested in composite streams (weak learners, linear and boosting models): the container's reader must fail
        units_t units;
        for (size_t i = 0; i < corpus.recipes.size(); ++i)
        {
            const auto& kind = corpus.recipes[i].kind;
            if (kind == "wlearner" || kind == "linear" || kind == "gboost" || kind == "factory:wlearner" || kind == "factory:linear")
            {
                (corpus.recipes[i].model ? units.models : units.small).push_back(i);
            }
        }
        lattice_t nlat;
        nlat.axis("composite object x offset-class", units.size(),
                  jstr("every byte of every tensor nested in an (un)fitted weak learner, linear model or boosting model"));
        nlat.describe(r, "corrupt-nested.");
        uint64_t nested_cases = 0;
        for_each_case(nlat, r, "cn", [&](const uint64_t index, const std::vector<uint64_t>&) {
            announce("cn", index);
            size_t   object  = 0;
            uint64_t residue = 0, modulus = 1;
            units.decode(index, object, residue, modulus);
            const auto e = build(corpus, object);
            if (residue == 0)
            {
                account(*e);
            }
            auto       bytes = e->bytes;
            const auto len   = bytes.size();
            std::map<std::string, uint64_t> local;
            for (const auto& span : e->nested)
            {
                if (span.what.size() < 6 || span.what.compare(span.what.size() - 6, 6, "tensor") != 0)
                {
                    continue;
                }
                uint32_t rank = 0;
                std::memcpy(&rank, bytes.data() + span.begin + 4, sizeof(rank));
                const bool empty = (span.end - span.begin) == 20 + 4 * static_cast<size_t>(rank);
                uint32_t   iscalar = 0;
                std::memcpy(&iscalar, bytes.data() + span.begin + 8 + 4 * static_cast<size_t>(rank), sizeof(iscalar));
                for (size_t p = span.begin; p < span.end; ++p)
                {
                    if (p % modulus != residue)
                    {
                        continue;
                    }
                    const auto original = bytes[p];
                    const auto field    = std::string(tensor_field(rank, p - span.begin));
                    for (const int pattern : {0, 1, 2})
                    {
                        const auto ub = static_cast<unsigned char>(original);
                        bytes[p]      = static_cast<char>(pattern == 0 ? (ub ^ 0x01U) : pattern == 1 ? (ub ^ 0x80U) : (~ub & 0xFFU));
                        const auto res = guarded(bytes.data(), len, e->read);
                        r.evaluations += 1;
                        ++nested_cases;
                        if (field == "payload" || field == "hash" || field == "dims")
                        {
                            ++r.nontrivial;
                        }
                        if (!is_silent_success(res))
                        {
                            local[std::string(name(res.what)) + "/nested-" + field] += 1;
                            continue;
                        }
                        // NB: the container was accepted, so the nested reader resized to exactly the dims of the altered header
                        const auto hdims = header_dims(bytes, span.begin, rank);
                        if (reshaped_empty_tensor(field, empty, hdims))
                        {
                            local["accepted:empty-tensor-reshaped(not judged)/nested-" + field] += 1;
                            --r.nontrivial; // not judged => not counted
                            continue;
                        }
                        local["accepted/nested-" + field] += 1;
                        {
                            const bool negative = std::any_of(hdims.begin(), hdims.end(), [](const auto d) { return d < 0; });
                            const auto key = field == "dims" && empty ? std::string("corrupt:accepted:dims:empty-tensor") +
                                                                            (negative ? ":negative-dim" : "") + ":nested-in-" + e->kind
                                      : field == "payload"
                                          ? "corrupt:accepted:payload:" + e->name + "/" + std::to_string(iscalar) + "-byte-scalar" + dims_text(hdims) +
                                                "@" + std::to_string(p) + ":" + PATTERN_NAMES[pattern] + ":nested-in-" + e->kind
                                          : "corrupt:accepted:nested-in-" + e->kind + ":" + field;
                            r.violation(key, "cn:" + std::to_string(index),
                                        jobj({{"object", jstr(e->name)}, {"stream_bytes", jint(len)}, {"byte_offset", jint(p)},
                                              {"nested_object", jstr(span.what)}, {"nested_begin", jint(span.begin)},
                                              {"nested_end", jint(span.end)}, {"field", jstr(field)},
                                              {"pattern", jstr(PATTERN_NAMES[pattern])}, {"original_byte", jint(ub)},
                                              {"corrupted_byte", jint(static_cast<unsigned char>(bytes[p]))},
                                              {"tensor_header_hex", jstr(hex(bytes, span.begin, 20 + 4 * static_cast<size_t>(rank)))},
                                              {"dims_in_corrupted_header", jarr_num(hdims)},
                                              {"observed", jstr("container stream with a corrupted tensor read successfully")},
                                              {"expected", jstr("exception or failed stream")}}));
                        }
                    }
                    bytes[p] = original;
                }
            }
            for (const auto& [k, n] : local)
            {
                r.outcome(k, n);
            }
            if (modulus == 1 ? index % 7 == 0 : residue == 0)
            {
                r.sample(jobj({{"object", jstr(e->name)}, {"bytes", jint(len)}, {"nested_objects", jint(e->nested.size())}}));
            }
        });
        r.note("nested_tensor_corruptions", jint(nested_cases));
    }
    else
    {
        std::fprintf(stderr, "unknown stage %s\n", stage.c_str());
        return 2;
    }

    r.note("objects", jint(objects_done));
    r.note("stream_bytes", jint(bytes_total));
    for (const auto& [k, n] : objects_by_kind)
    {
        r.note("objects:" + k, jint(n));
        r.note("stream_bytes:" + k, jint(bytes_by_kind[k]));
    }
    return r.finish();
}
