// C08 — all dataset views agree with the stored feature values, incl. missing ones.
//
// The reference model is the plain table (vt::column_t: one optional value per sample) the harness data source is
// filled from. Every expectation below is computed from that table and the documented encodings only.
//
// stages (--stage):
//   views   : E3 lattice schema x N x mask x target x generator stack x threads; inner: 5 sample index lists,
//             per-feature select, flatten, targets, bookkeeping, select/flatten/targets iterators with 4 batch sizes
//   bounds  : (ASan build) out-of-range sample / feature indices must be rejected with an exception and never read;
//             every probe runs in a forked child so that a sanitizer abort is attributed to exactly one call
//   history : E2 mc::bfs over drop/shuffle/undrop/unshuffle histories on the real dataset_t
#include "detrand.h"
#include "mc.h"
#include "table_ds.h"
#include "verif.h"
#include <atomic>
#include <nano/dataset/iterator.h>
#include <nano/generator/elemwise_gradient.h>
#include <nano/generator/pairwise_product.h>
#include <set>
#include <sys/wait.h>
#include <unistd.h>

using namespace nano;
using namespace verif;

// the bounds stage provokes many sanitizer reports in forked children: symbolizing every stack through an external
// process costs ~250 ms each (ASAN_OPTIONS=symbolize=1 in the environment turns it back on for a replay)
extern "C" const char* __asan_default_options()
{
    return "symbolize=0:detect_leaks=0";
}

namespace
{
constexpr double NaN = std::numeric_limits<double>::quiet_NaN();

// ---------------------------------------------------------------------------------------------
// feature kinds
enum
{
    SCLASS = 0,
    MCLASS = 1,
    SCALAR = 2,
    STRUCT = 3
};

struct kind_t
{
    const char*     name;
    int             cls;
    int             classes;
    feature_type    type;
    tensor3d_dims_t dims;
};

std::vector<kind_t> KINDS = {
    {"sclass2", SCLASS, 2, feature_type::sclass, make_dims(1, 1, 1)},
    {"sclass3", SCLASS, 3, feature_type::sclass, make_dims(1, 1, 1)},
    {"sclass300", SCLASS, 300, feature_type::sclass, make_dims(1, 1, 1)},
    {"mclass3", MCLASS, 3, feature_type::mclass, make_dims(1, 1, 1)},
    {"f32", SCALAR, 0, feature_type::float32, make_dims(1, 1, 1)},
    {"f64", SCALAR, 0, feature_type::float64, make_dims(1, 1, 1)},
    {"i8", SCALAR, 0, feature_type::int8, make_dims(1, 1, 1)},
    {"i16", SCALAR, 0, feature_type::int16, make_dims(1, 1, 1)},
    {"i32", SCALAR, 0, feature_type::int32, make_dims(1, 1, 1)},
    {"i64", SCALAR, 0, feature_type::int64, make_dims(1, 1, 1)},
    {"u8", SCALAR, 0, feature_type::uint8, make_dims(1, 1, 1)},
    {"u16", SCALAR, 0, feature_type::uint16, make_dims(1, 1, 1)},
    {"u32", SCALAR, 0, feature_type::uint32, make_dims(1, 1, 1)},
    {"u64", SCALAR, 0, feature_type::uint64, make_dims(1, 1, 1)},
    {"sf32_2x1x2", STRUCT, 0, feature_type::float32, make_dims(2, 1, 2)},
    {"su8_3x3x2", STRUCT, 0, feature_type::uint8, make_dims(3, 3, 2)},
    // only appended by the gradient stacks / used in the fixed schemas: the gradient generator ignores inputs with
    // fewer than 3 rows (dims[1]) or 3 columns (dims[2])
    {"su8_1x3x4", STRUCT, 0, feature_type::uint8, make_dims(1, 3, 4)},
    // history stage only: single-label feature whose label identifies the sample
    {"sclass20", SCLASS, 20, feature_type::sclass, make_dims(1, 1, 1)},
};
constexpr int NK     = 16; ///< lattice alphabet = the first 16 kinds
constexpr int K_GRAD = 16;
constexpr int K_S20  = 17;

std::string kinds_json()
{
    std::vector<std::string> names;
    for (int k = 0; k < NK; ++k)
    {
        names.emplace_back(KINDS[static_cast<size_t>(k)].name);
    }
    return jarr_str(names);
}

/// the stored value of (kind, column id, sample): exactly representable in the storage type and as a double
std::vector<double> cell_value(const int kind, const int col, const int s)
{
    const auto&         k = KINDS[static_cast<size_t>(kind)];
    std::vector<double> v;
    const double        t = static_cast<double>(s * 7 + col * 3);
    const double        sg = (s % 2) ? 1.0 : -1.0;
    switch (k.cls)
    {
    case SCLASS:
        if (k.classes >= 256)
        {
            v.push_back(static_cast<double>((s * 37 + col * 11 + 250) % k.classes)); // also labels > 255
        }
        else if (k.classes == 20)
        {
            v.push_back(static_cast<double>((s + col) % k.classes)); // identifies the sample for N <= 20
        }
        else
        {
            v.push_back(static_cast<double>((s + col + s / 3) % k.classes));
        }
        break;
    case MCLASS:
        for (int c = 0; c < k.classes; ++c)
        {
            v.push_back(static_cast<double>(((s + col + 1) >> c) & 1));
        }
        break;
    case SCALAR:
        switch (k.type)
        {
        case feature_type::float32: v.push_back(static_cast<double>(static_cast<float>(0.375 * s - 1.25 * col + 0.0625))); break;
        case feature_type::float64: v.push_back(0.1 * s - 0.3 * col + 1e-3); break;
        case feature_type::int8: v.push_back(t - 60.0); break;
        case feature_type::int16: v.push_back(sg * (30000.0 - t)); break;
        case feature_type::int32: v.push_back(sg * (2000000000.0 - t)); break;
        case feature_type::int64: v.push_back(sg * (4503599627370496.0 - t)); break; // 2^52
        case feature_type::uint8: v.push_back(static_cast<double>((s * 13 + col * 5 + 200) % 256)); break;
        case feature_type::uint16: v.push_back(65000.0 - t); break;
        case feature_type::uint32: v.push_back(4000000000.0 - t); break;
        default: v.push_back(9223372036854775808.0 + 2048.0 * (t + 1.0)); break; // 2^63 + multiples of the ulp
        }
        break;
    default:
    {
        const auto n = static_cast<int>(::nano::size(k.dims));
        for (int e = 0; e < n; ++e)
        {
            if (k.type == feature_type::float32)
            {
                v.push_back(static_cast<double>(static_cast<float>(0.5 * s + 0.25 * e - col)));
            }
            else if (kind == K_GRAD)
            {
                v.push_back(static_cast<double>((s * 17 + e * e * 3 + col) % 256));
            }
            else
            {
                v.push_back(static_cast<double>((s * 13 + e * 5 + col * 3) % 256));
            }
        }
    }
    }
    return v;
}

bool mask_given(const int mask, const int s, const int c, const int N)
{
    switch (mask)
    {
    case 0: return true;
    case 1: return false;
    case 2: return s != 0;
    case 3: return s != N - 1;
    case 4: return (s + c) % 2 == 0;
    default: return s == c % N;
    }
}
const char* MASKS_JSON = "[\"all given\",\"none given\",\"sample 0 missing\",\"sample N-1 missing\",\"every other (s+column even)\","
                         "\"only sample (column mod N) given\"]";

// ---------------------------------------------------------------------------------------------
// reference model = the table
struct model_t
{
    int                       N = 0;
    std::vector<vt::column_t> cols;
    std::vector<int>          kinds;                                      ///< kind per table column
    size_t                    target = vt::table_datasource_t::no_target; ///< table column of the target
    std::vector<size_t>       inputs;                                     ///< table column per input feature

    bool has_target() const { return target != vt::table_datasource_t::no_target; }
    int  column_of(const std::string& name) const
    {
        for (size_t c = 0; c < cols.size(); ++c)
        {
            if (cols[c].feature.name() == name)
            {
                return static_cast<int>(c);
            }
        }
        return -1;
    }
    std::string str() const
    {
        std::string s = "N=" + std::to_string(N) + " [";
        for (size_t c = 0; c < cols.size(); ++c)
        {
            s += (c ? "," : "") + cols[c].feature.name() + (c == target ? "(target)" : "");
        }
        return s + "]";
    }
};

vt::column_t make_column(const int kind, const std::string& name)
{
    const auto& k = KINDS[static_cast<size_t>(kind)];
    switch (k.cls)
    {
    case SCLASS: return vt::make_sclass(name, static_cast<size_t>(k.classes));
    case MCLASS: return vt::make_mclass(name, static_cast<size_t>(k.classes));
    case SCALAR: return vt::make_scalar(name, k.type);
    default: return vt::make_struct(name, k.type, k.dims);
    }
}

/// schema = kinds of the input features; target_kind < 0: no target, otherwise inserted at table position target_pos
model_t make_model(const std::vector<int>& schema, const int N, const int mask, const int target_kind, const size_t target_pos)
{
    model_t m;
    m.N = N;
    std::vector<int> kinds = schema;
    if (target_kind >= 0)
    {
        kinds.insert(kinds.begin() + static_cast<std::ptrdiff_t>(std::min(target_pos, schema.size())), target_kind);
        m.target = std::min(target_pos, schema.size());
    }
    m.kinds = kinds;
    for (size_t c = 0; c < kinds.size(); ++c)
    {
        const bool is_target = c == m.target;
        auto       col       = make_column(kinds[c], (is_target ? "y" : "c") + std::to_string(c) + "_" + KINDS[static_cast<size_t>(kinds[c])].name);
        col.values.resize(static_cast<size_t>(N));
        for (int s = 0; s < N; ++s)
        {
            if (is_target || mask_given(mask, s, static_cast<int>(c), N))
            {
                col.values[static_cast<size_t>(s)] = cell_value(kinds[c], static_cast<int>(c), s);
            }
        }
        m.cols.push_back(std::move(col));
        if (!is_target)
        {
            m.inputs.push_back(c);
        }
    }
    return m;
}

std::unique_ptr<vt::table_datasource_t> make_source(const model_t& m)
{
    auto src = std::make_unique<vt::table_datasource_t>(m.N, m.cols, m.target);
    src->load();
    return src;
}

// ---------------------------------------------------------------------------------------------
// generator stacks
const char* STACKS_JSON =
    "[\"identity x4\",\"identity x4 + pairwise product (all scalar pairs)\","
    "\"identity x4 + gradient; an extra u8 1x3x4 input is appended (the gradient generator needs >= 3 rows and columns)\","
    "\"identity x4 + product, all constructed with features = all inputs in reversed order\","
    "\"identity x4 + product + gradient, all constructed with features = every other input counted from the last; extra u8 "
    "1x3x4 input appended\"]";
constexpr int NSTACKS   = 5;
constexpr int STACK_ALL = -2; ///< bounds stage: identity x4 + product + gradient, all default constructed

bool stack_appends_gradient_input(const int stack)
{
    return stack == 2 || stack == 4;
}

indices_t to_indices(const std::vector<tensor_size_t>& v)
{
    indices_t idx(static_cast<tensor_size_t>(v.size()));
    for (size_t i = 0; i < v.size(); ++i)
    {
        idx(static_cast<tensor_size_t>(i)) = v[i];
    }
    return idx;
}

/// the inputs (data source feature indices) a generator of this stack is restricted to; empty = all
std::vector<tensor_size_t> stack_subset(const int stack, const size_t inputs)
{
    std::vector<tensor_size_t> sub;
    if (stack == 3)
    {
        for (size_t i = inputs; i-- > 0;)
        {
            sub.push_back(static_cast<tensor_size_t>(i));
        }
    }
    else if (stack == 4)
    {
        for (auto i = static_cast<std::ptrdiff_t>(inputs) - 1; i >= 0; i -= 2)
        {
            sub.push_back(static_cast<tensor_size_t>(i));
        }
    }
    return sub;
}

void add_generators(dataset_t& dataset, const int stack, const size_t inputs)
{
    const auto sub = stack_subset(stack, inputs);
    if (sub.empty())
    {
        vt::add_identity_generators(dataset);
        if (stack == 1 || stack == STACK_ALL)
        {
            dataset.add<pairwise_product_generator_t>();
        }
        if (stack == 2 || stack == STACK_ALL)
        {
            dataset.add<gradient_generator_t>();
        }
    }
    else
    {
        dataset.add<sclass_identity_generator_t>(to_indices(sub));
        dataset.add<mclass_identity_generator_t>(to_indices(sub));
        dataset.add<scalar_identity_generator_t>(to_indices(sub));
        dataset.add<struct_identity_generator_t>(to_indices(sub));
        dataset.add<pairwise_product_generator_t>(to_indices(sub));
        if (stack == 4)
        {
            dataset.add<gradient_generator_t>(to_indices(sub));
        }
    }
}

// ---------------------------------------------------------------------------------------------
// generated features, identified by their documented names
enum
{
    G_IDENTITY = 0,
    G_PRODUCT  = 1,
    G_GRADIENT = 2
};

struct gfeat_t
{
    int           gen  = G_IDENTITY;
    size_t        col1 = 0, col2 = 0; ///< table columns of the source(s)
    int           channel = 0;
    std::string   mode;
    feature_t     desc;
    tensor_size_t elems = 1;  ///< values per sample in the per-feature view
    tensor_size_t width = 1;  ///< columns in the flattened view
    tensor_size_t begin = -1; ///< first flatten column
    std::string   signature;  ///< canonical identity used to compare the feature multiset
};

/// the multiset of generated features the stack must produce, from the table alone
std::multiset<std::string> expected_signatures(const model_t& m, const int stack)
{
    std::multiset<std::string> out;
    const auto                 sub = stack_subset(stack, m.inputs.size());
    std::vector<size_t>        chosen; // table columns, in the order given to the generators
    if (sub.empty())
    {
        chosen = m.inputs;
    }
    else
    {
        for (const auto i : sub)
        {
            chosen.push_back(m.inputs[static_cast<size_t>(i)]);
        }
    }
    for (const auto c : chosen)
    {
        out.insert("id:" + m.cols[c].feature.name());
    }
    if (stack == 1 || stack == 3 || stack == 4)
    {
        std::set<std::pair<size_t, size_t>> pairs;
        for (const auto a : chosen)
        {
            for (const auto b : chosen)
            {
                if (m.cols[a].feature.is_scalar() && m.cols[b].feature.is_scalar())
                {
                    pairs.insert({std::min(a, b), std::max(a, b)});
                }
            }
        }
        for (const auto& p : pairs)
        {
            out.insert("prod:" + m.cols[p.first].feature.name() + "*" + m.cols[p.second].feature.name());
        }
    }
    if (stack == 2 || stack == 4)
    {
        for (const auto c : chosen)
        {
            const auto& f = m.cols[c].feature;
            if (f.is_struct() && std::get<1>(f.dims()) >= 3 && std::get<2>(f.dims()) >= 3)
            {
                for (tensor_size_t ch = 0; ch < std::get<0>(f.dims()); ++ch)
                {
                    for (const char* mode : {"gx", "gy", "gg", "theta"})
                    {
                        out.insert("grad:" + f.name() + ":" + std::to_string(ch) + ":" + mode);
                    }
                }
            }
        }
    }
    return out;
}

tensor_size_t flatten_width(const feature_t& f)
{
    return f.is_sclass() ? f.classes() - 1 : f.is_mclass() ? f.classes() : ::nano::size(f.dims());
}
tensor_size_t select_elems(const feature_t& f)
{
    return f.is_sclass() ? 1 : f.is_mclass() ? f.classes() : ::nano::size(f.dims());
}

struct sink_t
{
    std::vector<std::pair<std::string, std::string>> fails; ///< (key, detail json)
    void fail(const std::string& key, const std::string& detail)
    {
        if (fails.size() < 8)
        {
            fails.emplace_back(key, detail);
        }
    }
    bool ok() const { return fails.empty(); }
};

/// identify every generated feature from its descriptor and check the bookkeeping; false = cannot continue
bool identify(const dataset_t& ds, const model_t& m, const int stack, std::vector<gfeat_t>& feats, sink_t& sink)
{
    feats.clear();
    const auto                 F = ds.features();
    std::multiset<std::string> got;
    tensor_size_t              columns = 0;
    for (tensor_size_t i = 0; i < F; ++i)
    {
        gfeat_t g;
        g.desc           = ds.feature(i);
        const auto& name = g.desc.name();
        if (name.rfind("product(", 0) == 0 && name.back() == ')')
        {
            const auto comma = name.find(',');
            const auto a     = m.column_of(name.substr(8, comma - 8));
            const auto b     = comma == std::string::npos ? -1 : m.column_of(name.substr(comma + 1, name.size() - comma - 2));
            if (a < 0 || b < 0)
            {
                sink.fail("views:bookkeeping:unknown-feature", jobj({{"feature", jint(i)}, {"name", jstr(name)}}));
                return false;
            }
            g.gen       = G_PRODUCT;
            g.col1      = static_cast<size_t>(a);
            g.col2      = static_cast<size_t>(b);
            g.signature = "prod:" + m.cols[std::min(g.col1, g.col2)].feature.name() + "*" + m.cols[std::max(g.col1, g.col2)].feature.name();
            if (!(g.desc.type() == feature_type::float64 && g.desc.dims() == make_dims(1, 1, 1)))
            {
                sink.fail("views:bookkeeping:product-descriptor", jobj({{"feature", jint(i)}, {"name", jstr(name)}}));
            }
        }
        else if (name.find("::") != std::string::npos)
        {
            // <kernel>::<mode>(<input>[channel::<c>])
            const auto p0 = name.find("::"), p1 = name.find('('), p2 = name.find("[channel::"), p3 = name.find("])");
            int        c  = -1;
            if (p1 != std::string::npos && p2 != std::string::npos && p3 != std::string::npos && p0 < p1 && p1 < p2)
            {
                c = m.column_of(name.substr(p1 + 1, p2 - p1 - 1));
            }
            if (c < 0)
            {
                sink.fail("views:bookkeeping:unknown-feature", jobj({{"feature", jint(i)}, {"name", jstr(name)}}));
                return false;
            }
            g.gen       = G_GRADIENT;
            g.col1      = static_cast<size_t>(c);
            g.mode      = name.substr(p0 + 2, p1 - p0 - 2);
            g.channel   = std::atoi(name.substr(p2 + 10, p3 - p2 - 10).c_str());
            g.signature = "grad:" + m.cols[g.col1].feature.name() + ":" + std::to_string(g.channel) + ":" + g.mode;
            const auto sd = m.cols[g.col1].feature.dims();
            if (!(g.desc.type() == feature_type::float64 &&
                  g.desc.dims() == make_dims(1, std::get<1>(sd) - 2, std::get<2>(sd) - 2)))
            {
                sink.fail("views:bookkeeping:gradient-descriptor", jobj({{"feature", jint(i)}, {"name", jstr(name)}}));
            }
        }
        else
        {
            const auto c = m.column_of(name);
            if (c < 0 || static_cast<size_t>(c) == m.target)
            {
                sink.fail("views:bookkeeping:unknown-feature", jobj({{"feature", jint(i)}, {"name", jstr(name)}}));
                return false;
            }
            g.gen       = G_IDENTITY;
            g.col1      = static_cast<size_t>(c);
            g.signature = "id:" + name;
            if (g.desc != m.cols[g.col1].feature)
            {
                sink.fail("views:bookkeeping:identity-descriptor", jobj({{"feature", jint(i)}, {"name", jstr(name)}}));
            }
        }
        g.elems = select_elems(g.desc);
        g.width = flatten_width(g.desc);
        columns += g.width;
        got.insert(g.signature);
        feats.push_back(std::move(g));
    }
    if (stack >= 0 && got != expected_signatures(m, stack))
    {
        std::vector<std::string> g(got.begin(), got.end());
        const auto               e = expected_signatures(m, stack);
        sink.fail("views:bookkeeping:feature-set",
                  jobj({{"got", jarr_str(g)}, {"expected", jarr_str(std::vector<std::string>(e.begin(), e.end()))}}));
    }
    if (ds.columns() != columns)
    {
        sink.fail("views:bookkeeping:columns", jobj({{"got", jint(ds.columns())}, {"expected", jint(columns)}}));
        return false;
    }
    // column -> feature map: non-decreasing, feature i owns exactly width(i) contiguous columns
    std::vector<tensor_size_t> count(static_cast<size_t>(F), 0);
    tensor_size_t              prev = 0;
    for (tensor_size_t c = 0; c < columns; ++c)
    {
        const auto f = ds.column2feature(c);
        if (f < 0 || f >= F || f < prev)
        {
            sink.fail("views:bookkeeping:column2feature", jobj({{"column", jint(c)}, {"got", jint(f)}}));
            return false;
        }
        if (count[static_cast<size_t>(f)]++ == 0)
        {
            feats[static_cast<size_t>(f)].begin = c;
        }
        prev = f;
    }
    for (tensor_size_t i = 0; i < F; ++i)
    {
        if (count[static_cast<size_t>(i)] != feats[static_cast<size_t>(i)].width)
        {
            sink.fail("views:bookkeeping:column2feature",
                      jobj({{"feature", jint(i)}, {"columns", jint(count[static_cast<size_t>(i)])},
                            {"expected", jint(feats[static_cast<size_t>(i)].width)}}));
            return false;
        }
    }
    // target bookkeeping
    if (m.has_target())
    {
        const auto& t = m.cols[m.target].feature;
        const auto  e = (t.is_sclass() || t.is_mclass()) ? make_dims(t.classes(), 1, 1) : t.dims();
        if (ds.target() != t || ds.target_dims() != e || ds.type() != t.task())
        {
            sink.fail("views:bookkeeping:target", jobj({{"target", jstr(t.name())}}));
        }
    }
    else if (ds.target().valid() || ds.target_dims() != make_dims(0, 0, 0) || ds.type() != task_type::unsupervised)
    {
        sink.fail("views:bookkeeping:target", jobj({{"target", jstr("absent")}}));
    }
    if (ds.samples() != m.N)
    {
        sink.fail("views:bookkeeping:samples", jobj({{"got", jint(ds.samples())}, {"expected", jint(m.N)}}));
    }
    return true;
}

// ---------------------------------------------------------------------------------------------
// expected views
struct fstate_t
{
    int                        mode = 0; ///< 0 plain, 1 dropped, 2 shuffled
    std::vector<tensor_size_t> perm;     ///< all samples (mode 2)
    tensor_size_t source(const tensor_size_t s) const
    {
        return mode == 1 ? -1 : mode == 2 ? perm[static_cast<size_t>(s)] : s;
    }
};

const std::optional<std::vector<double>>* cell(const model_t& m, const size_t col, const tensor_size_t s)
{
    return &m.cols[col].values[static_cast<size_t>(s)];
}

/// per-feature view of one sample (s < 0: dropped)
void expect_select(const model_t& m, const gfeat_t& g, const tensor_size_t s, std::vector<double>& out)
{
    if (g.gen == G_PRODUCT)
    {
        const auto* a = s < 0 ? nullptr : cell(m, g.col1, s);
        const auto* b = s < 0 ? nullptr : cell(m, g.col2, s);
        out.push_back((a && b && *a && *b) ? (**a)[0] * (**b)[0] : NaN);
        return;
    }
    const auto& f   = m.cols[g.col1].feature;
    const bool  cat = f.is_sclass() || f.is_mclass();
    const auto* v   = s < 0 ? nullptr : cell(m, g.col1, s);
    if (!v || !*v)
    {
        out.insert(out.end(), static_cast<size_t>(g.elems), cat ? -1.0 : NaN);
        return;
    }
    out.insert(out.end(), (*v)->begin(), (*v)->end());
}

/// flattened view of one sample: sclass -> C-1 columns one-hot +-1, mclass -> 2*hit-1, the rest row-major
void expect_flatten(const model_t& m, const gfeat_t& g, const tensor_size_t s, std::vector<double>& out)
{
    if (g.gen == G_PRODUCT)
    {
        expect_select(m, g, s, out);
        return;
    }
    const auto& f = m.cols[g.col1].feature;
    const auto* v = s < 0 ? nullptr : cell(m, g.col1, s);
    if (!v || !*v)
    {
        out.insert(out.end(), static_cast<size_t>(g.width), NaN);
        return;
    }
    if (f.is_sclass())
    {
        const auto label = static_cast<tensor_size_t>((**v)[0]);
        for (tensor_size_t c = 0; c + 1 < f.classes(); ++c)
        {
            out.push_back(c == label ? +1.0 : -1.0);
        }
    }
    else if (f.is_mclass())
    {
        for (const auto h : **v)
        {
            out.push_back(2.0 * h - 1.0);
        }
    }
    else
    {
        out.insert(out.end(), (*v)->begin(), (*v)->end());
    }
}

/// target view of one sample: sclass -> C values one-hot +-1, mclass -> 2*hit-1, the rest row-major
void expect_target(const model_t& m, const tensor_size_t s, std::vector<double>& out)
{
    const auto& f = m.cols[m.target].feature;
    const auto& v = *m.cols[m.target].values[static_cast<size_t>(s)];
    if (f.is_sclass())
    {
        for (tensor_size_t c = 0; c < f.classes(); ++c)
        {
            out.push_back(c == static_cast<tensor_size_t>(v[0]) ? +1.0 : -1.0);
        }
    }
    else if (f.is_mclass())
    {
        for (const auto h : v)
        {
            out.push_back(2.0 * h - 1.0);
        }
    }
    else
    {
        out.insert(out.end(), v.begin(), v.end());
    }
}

bool same(const double a, const double b)
{
    return (std::isnan(a) && std::isnan(b)) || a == b;
}

template <class ttensor>
std::vector<double> to_vec(const ttensor& t)
{
    std::vector<double> v(static_cast<size_t>(t.size()));
    for (tensor_size_t i = 0; i < t.size(); ++i)
    {
        v[static_cast<size_t>(i)] = static_cast<double>(t.data()[i]);
    }
    return v;
}

/// first differing position or -1
std::ptrdiff_t first_diff(const std::vector<double>& got, const std::vector<double>& exp)
{
    if (got.size() != exp.size())
    {
        return static_cast<std::ptrdiff_t>(std::min(got.size(), exp.size()));
    }
    for (size_t i = 0; i < got.size(); ++i)
    {
        if (!same(got[i], exp[i]))
        {
            return static_cast<std::ptrdiff_t>(i);
        }
    }
    return -1;
}

std::string diff_detail(const std::string& what, const std::vector<double>& got, const std::vector<double>& exp,
                        const std::ptrdiff_t at, const std::vector<tensor_size_t>& idx)
{
    const auto clip = [](const std::vector<double>& v)
    {
        return jarr_num(std::vector<double>(v.begin(), v.begin() + static_cast<std::ptrdiff_t>(std::min<size_t>(v.size(), 24))));
    };
    return jobj({{"what", jstr(what)}, {"samples", jarr_num(idx)}, {"first_difference_at", jint(at)},
                 {"got_size", jint(got.size())}, {"expected_size", jint(exp.size())},
                 {"got", at >= 0 && static_cast<size_t>(at) < got.size() ? jnum(got[static_cast<size_t>(at)]) : jstr("-")},
                 {"expected", at >= 0 && static_cast<size_t>(at) < exp.size() ? jnum(exp[static_cast<size_t>(at)]) : jstr("-")},
                 {"got_head", clip(got)}, {"expected_head", clip(exp)}});
}

const char* cls_name(const feature_t& f)
{
    return f.is_sclass() ? "sclass" : f.is_mclass() ? "mclass" : f.is_scalar() ? "scalar" : "struct";
}
const char* gen_name(const int gen)
{
    return gen == G_IDENTITY ? "identity" : gen == G_PRODUCT ? "product" : "gradient";
}

struct buffers_t
{
    sclass_mem_t sclass;
    mclass_mem_t mclass;
    scalar_mem_t scalar;
    struct_mem_t structured;
    tensor2d_t   flatten;
    tensor4d_t   targets;
};

/// the per-feature view through the overload selected by the descriptor; checks the returned shape
std::vector<double> do_select(const dataset_t& ds, const indices_t& idx, const tensor_size_t f, const feature_t& desc,
                              buffers_t& b, bool& shape_ok)
{
    const auto n = idx.size();
    if (desc.is_sclass())
    {
        const auto v = ds.select(idx, f, b.sclass);
        shape_ok     = v.dims() == make_dims(n);
        return to_vec(v);
    }
    if (desc.is_mclass())
    {
        const auto v = ds.select(idx, f, b.mclass);
        shape_ok     = v.dims() == make_dims(n, desc.classes());
        return to_vec(v);
    }
    if (desc.is_scalar())
    {
        const auto v = ds.select(idx, f, b.scalar);
        shape_ok     = v.dims() == make_dims(n);
        return to_vec(v);
    }
    const auto v = ds.select(idx, f, b.structured);
    shape_ok     = v.dims() == cat_dims(n, desc.dims());
    return to_vec(v);
}

/// expected flattened matrix (row-major n x columns) for non-gradient features; gradient blocks are left as NaN
std::vector<double> expected_flatten_matrix(const model_t& m, const std::vector<gfeat_t>& feats,
                                            const std::vector<fstate_t>& states, const std::vector<tensor_size_t>& idx,
                                            const tensor_size_t columns)
{
    std::vector<double> e;
    e.reserve(idx.size() * static_cast<size_t>(columns));
    for (const auto s : idx)
    {
        for (size_t f = 0; f < feats.size(); ++f)
        {
            if (feats[f].gen == G_GRADIENT)
            {
                e.insert(e.end(), static_cast<size_t>(feats[f].width), NaN);
            }
            else
            {
                expect_flatten(m, feats[f], states[f].source(s), e);
            }
        }
    }
    return e;
}

/// direct calls: select of every feature, flatten, targets, target select. returns the number of compared views
int check_direct(const dataset_t& ds, const model_t& m, const std::vector<gfeat_t>& feats, const std::vector<fstate_t>& states,
                 const std::vector<tensor_size_t>& idxv, buffers_t& b, sink_t& sink, const std::string& prefix,
                 const bool with_targets = true)
{
    const auto idx     = to_indices(idxv);
    const auto n       = idx.size();
    const auto columns = ds.columns();
    int        views   = 0;

    const auto flat  = ds.flatten(idx, b.flatten);
    const bool fdims = flat.dims() == make_dims(n, columns);
    if (!fdims)
    {
        sink.fail(prefix + ":flatten:shape", jobj({{"rows", jint(flat.size<0>())}, {"cols", jint(flat.size<1>())}}));
        return views;
    }
    ++views;
    for (size_t f = 0; f < feats.size(); ++f)
    {
        const auto& g        = feats[f];
        bool        shape_ok = true;
        const auto  got      = do_select(ds, idx, static_cast<tensor_size_t>(f), g.desc, b, shape_ok);
        ++views;
        if (!shape_ok || static_cast<tensor_size_t>(got.size()) != n * g.elems)
        {
            sink.fail(prefix + ":select:shape:" + cls_name(g.desc), jobj({{"feature", jstr(g.signature)}}));
            continue;
        }
        // the flatten block of this feature
        std::vector<double> block;
        for (tensor_size_t i = 0; i < n; ++i)
        {
            for (tensor_size_t c = 0; c < g.width; ++c)
            {
                block.push_back(flat(i, g.begin + c));
            }
        }
        if (g.gen == G_GRADIENT)
        {
            // the statement fixes no values for gradient features: per-feature and flattened views must agree
            // (row-major), all-NaN exactly where the source is missing or the feature is dropped
            bool ok = first_diff(block, got) < 0;
            for (tensor_size_t i = 0; ok && i < n; ++i)
            {
                const auto  s       = states[f].source(idxv[static_cast<size_t>(i)]);
                const auto* v       = s < 0 ? nullptr : cell(m, g.col1, s);
                const bool  missing = !v || !*v;
                for (tensor_size_t e = 0; e < g.elems; ++e)
                {
                    ok = ok && (std::isnan(got[static_cast<size_t>(i * g.elems + e)]) == missing);
                }
            }
            if (!ok)
            {
                sink.fail(prefix + ":gradient:select-vs-flatten",
                          diff_detail(g.signature, got, block, first_diff(block, got), idxv));
            }
            continue;
        }
        std::vector<double> esel, eflat;
        for (const auto s : idxv)
        {
            expect_select(m, g, states[f].source(s), esel);
            expect_flatten(m, g, states[f].source(s), eflat);
        }
        if (const auto at = first_diff(got, esel); at >= 0)
        {
            sink.fail(prefix + ":select:" + gen_name(g.gen) + ":" + cls_name(g.desc), diff_detail(g.signature, got, esel, at, idxv));
        }
        if (const auto at = first_diff(block, eflat); at >= 0)
        {
            sink.fail(prefix + ":flatten:" + gen_name(g.gen) + ":" + cls_name(g.desc), diff_detail(g.signature, block, eflat, at, idxv));
        }
    }
    if (with_targets && m.has_target())
    {
        const auto& t  = m.cols[m.target].feature;
        const auto  td = (t.is_sclass() || t.is_mclass()) ? make_dims(t.classes(), 1, 1) : t.dims();
        std::vector<double> et, es;
        for (const auto s : idxv)
        {
            expect_target(m, s, et);
            const auto& v = *m.cols[m.target].values[static_cast<size_t>(s)];
            es.insert(es.end(), v.begin(), v.end());
        }
        const auto tg = ds.targets(idx, b.targets);
        ++views;
        if (tg.dims() != cat_dims(n, td))
        {
            sink.fail(prefix + ":targets:shape", jobj({{"target", jstr(t.name())}}));
        }
        else if (const auto at = first_diff(to_vec(tg), et); at >= 0)
        {
            sink.fail(prefix + std::string(":targets:") + cls_name(t), diff_detail(t.name(), to_vec(tg), et, at, idxv));
        }
        std::vector<double> got;
        if (t.is_sclass())
        {
            got = to_vec(ds.select(idx, b.sclass));
        }
        else if (t.is_mclass())
        {
            got = to_vec(ds.select(idx, b.mclass));
        }
        else if (t.is_scalar())
        {
            got = to_vec(ds.select(idx, b.scalar));
        }
        else
        {
            got = to_vec(ds.select(idx, b.structured));
        }
        ++views;
        if (const auto at = first_diff(got, es); at >= 0)
        {
            sink.fail(prefix + std::string(":target-select:") + cls_name(t), diff_detail(t.name(), got, es, at, idxv));
        }
    }
    return views;
}

/// select / flatten / targets iterators against the same expectations (plain state). returns the number of loops compared
int check_iterators(const dataset_t& ds, const model_t& m, const std::vector<gfeat_t>& feats,
                    const std::vector<tensor_size_t>& idxv, const std::vector<tensor_size_t>& batches, sink_t& sink)
{
    const auto idx     = to_indices(idxv);
    const auto n       = idx.size();
    const auto columns = ds.columns();
    const auto F       = static_cast<tensor_size_t>(feats.size());
    int        loops   = 0;
    const std::vector<fstate_t> plain(feats.size());

    // ---- select iterator: all features of a type, one feature, a list of features
    std::vector<std::vector<double>> esel(feats.size());
    for (size_t f = 0; f < feats.size(); ++f)
    {
        if (feats[f].gen != G_GRADIENT)
        {
            for (const auto s : idxv)
            {
                expect_select(m, feats[f], s, esel[f]);
            }
        }
    }
    {
        const select_iterator_t          it(ds);
        std::vector<std::atomic<int>>    visits(feats.size());
        std::vector<std::atomic<int>>    wrong(feats.size());
        std::vector<std::vector<double>> grad(feats.size());
        const auto                       visit = [&](const tensor_size_t f, const size_t tnum, const auto& values, const int cls)
        {
            if (f < 0 || f >= F || tnum >= ds.concurrency())
            {
                return;
            }
            const auto  u = static_cast<size_t>(f);
            const auto& g = feats[u];
            visits[u]++;
            const int c = g.desc.is_sclass() ? SCLASS : g.desc.is_mclass() ? MCLASS : g.desc.is_scalar() ? SCALAR : STRUCT;
            if (c != cls || values.size() != n * g.elems)
            {
                wrong[u]++;
            }
            else if (g.gen == G_GRADIENT)
            {
                grad[u] = to_vec(values);
            }
            else if (first_diff(to_vec(values), esel[u]) >= 0)
            {
                wrong[u]++;
            }
        };
        const auto reset = [&]
        {
            for (size_t f = 0; f < feats.size(); ++f)
            {
                visits[f] = 0;
                wrong[f]  = 0;
            }
        };
        const auto judge = [&](const std::string& how, const std::vector<int>& expected_visits)
        {
            ++loops;
            for (size_t f = 0; f < feats.size(); ++f)
            {
                if (visits[f] != expected_visits[f] || wrong[f] != 0)
                {
                    sink.fail("views:iterator:select:" + how,
                              jobj({{"feature", jstr(feats[f].signature)}, {"visits", jint(visits[f].load())},
                                    {"expected_visits", jint(expected_visits[f])}, {"wrong_values", jint(wrong[f].load())},
                                    {"samples", jarr_num(idxv)}}));
                    break;
                }
            }
        };
        // all features of every type
        reset();
        it.loop(idx, sclass_callback_t([&](tensor_size_t f, size_t t, sclass_cmap_t v) { visit(f, t, v, SCLASS); }));
        it.loop(idx, mclass_callback_t([&](tensor_size_t f, size_t t, mclass_cmap_t v) { visit(f, t, v, MCLASS); }));
        it.loop(idx, scalar_callback_t([&](tensor_size_t f, size_t t, scalar_cmap_t v) { visit(f, t, v, SCALAR); }));
        it.loop(idx, struct_callback_t([&](tensor_size_t f, size_t t, struct_cmap_t v) { visit(f, t, v, STRUCT); }));
        judge("by-type", std::vector<int>(feats.size(), 1));
        // one feature at a time and the explicit list of all features of that type (reversed)
        reset();
        std::vector<tensor_size_t> lists[4];
        for (tensor_size_t f = F; f-- > 0;)
        {
            const auto& d = feats[static_cast<size_t>(f)].desc;
            if (d.is_sclass())
            {
                it.loop(idx, f, sclass_callback_t([&](tensor_size_t g, size_t t, sclass_cmap_t v) { visit(g, t, v, SCLASS); }));
                lists[SCLASS].push_back(f);
            }
            else if (d.is_mclass())
            {
                it.loop(idx, f, mclass_callback_t([&](tensor_size_t g, size_t t, mclass_cmap_t v) { visit(g, t, v, MCLASS); }));
                lists[MCLASS].push_back(f);
            }
            else if (d.is_scalar())
            {
                it.loop(idx, f, scalar_callback_t([&](tensor_size_t g, size_t t, scalar_cmap_t v) { visit(g, t, v, SCALAR); }));
                lists[SCALAR].push_back(f);
            }
            else
            {
                it.loop(idx, f, struct_callback_t([&](tensor_size_t g, size_t t, struct_cmap_t v) { visit(g, t, v, STRUCT); }));
                lists[STRUCT].push_back(f);
            }
        }
        judge("one-feature", std::vector<int>(feats.size(), 1));
        reset();
        if (!lists[SCLASS].empty())
        {
            it.loop(idx, to_indices(lists[SCLASS]), sclass_callback_t([&](tensor_size_t f, size_t t, sclass_cmap_t v) { visit(f, t, v, SCLASS); }));
        }
        if (!lists[MCLASS].empty())
        {
            it.loop(idx, to_indices(lists[MCLASS]), mclass_callback_t([&](tensor_size_t f, size_t t, mclass_cmap_t v) { visit(f, t, v, MCLASS); }));
        }
        if (!lists[SCALAR].empty())
        {
            it.loop(idx, to_indices(lists[SCALAR]), scalar_callback_t([&](tensor_size_t f, size_t t, scalar_cmap_t v) { visit(f, t, v, SCALAR); }));
        }
        if (!lists[STRUCT].empty())
        {
            it.loop(idx, to_indices(lists[STRUCT]), struct_callback_t([&](tensor_size_t f, size_t t, struct_cmap_t v) { visit(f, t, v, STRUCT); }));
        }
        judge("feature-list", std::vector<int>(feats.size(), 1));
    }

    // ---- flatten / targets iterators (scaling none: the iterators replace non-finite values by 0, see
    //      scalar_stats_t::scale and the repository's check_flatten fixture)
    auto eflat = expected_flatten_matrix(m, feats, plain, idxv, columns);
    {
        // gradient blocks: take the direct view (checked against select in check_direct)
        tensor2d_t buffer;
        const auto flat = ds.flatten(idx, buffer);
        for (tensor_size_t i = 0; i < n; ++i)
        {
            for (const auto& g : feats)
            {
                if (g.gen == G_GRADIENT)
                {
                    for (tensor_size_t c = 0; c < g.width; ++c)
                    {
                        eflat[static_cast<size_t>(i * columns + g.begin + c)] = flat(i, g.begin + c);
                    }
                }
            }
        }
    }
    for (auto& v : eflat)
    {
        v = std::isfinite(v) ? v : 0.0;
    }
    std::vector<double> etarg;
    tensor_size_t       tsize = 0;
    if (m.has_target())
    {
        for (const auto s : idxv)
        {
            expect_target(m, s, etarg);
        }
        const auto& t = m.cols[m.target].feature;
        tsize         = (t.is_sclass() || t.is_mclass()) ? t.classes() : ::nano::size(t.dims());
    }
    struct cover_t
    {
        std::vector<std::atomic<int>> rows;
        std::atomic<int>              bad{0};
        explicit cover_t(const tensor_size_t n)
            : rows(static_cast<size_t>(n))
        {
        }
        bool exactly_once() const
        {
            for (const auto& r : rows)
            {
                if (r != 1)
                {
                    return false;
                }
            }
            return true;
        }
    };
    const auto check_rows = [&](cover_t& cover, const tensor_range_t range, const size_t tnum, const tensor_size_t batch,
                                const std::vector<double>& got, const std::vector<double>& exp, const tensor_size_t width)
    {
        if (range.begin() < 0 || range.end() > n || range.size() > batch || range.size() < 1 || tnum >= ds.concurrency() ||
            static_cast<tensor_size_t>(got.size()) != range.size() * width)
        {
            cover.bad++;
            return;
        }
        for (tensor_size_t i = range.begin(); i < range.end(); ++i)
        {
            cover.rows[static_cast<size_t>(i)]++;
            for (tensor_size_t c = 0; c < width; ++c)
            {
                if (!same(got[static_cast<size_t>((i - range.begin()) * width + c)], exp[static_cast<size_t>(i * width + c)]))
                {
                    cover.bad++;
                    return;
                }
            }
        }
    };
    flatten_iterator_t fit(ds, idx);
    for (const auto batch : batches)
    {
        fit.batch(batch);
        for (int cached = 0; cached < 2; ++cached)
        {
            if (cached == 1)
            {
                if (batch != 2 || !fit.cache_flatten(tensor_size_t(1) << 24))
                {
                    continue;
                }
            }
            {
                cover_t cover(n);
                fit.loop(flatten_callback_t([&](tensor_range_t range, size_t tnum, tensor2d_cmap_t flatten)
                                            { check_rows(cover, range, tnum, batch, to_vec(flatten), eflat, columns); }));
                ++loops;
                if (cover.bad != 0 || !cover.exactly_once())
                {
                    sink.fail(std::string("views:iterator:flatten") + (cached ? ":cached" : ""),
                              jobj({{"batch", jint(batch)}, {"samples", jarr_num(idxv)}, {"bad_chunks", jint(cover.bad.load())},
                                    {"threads", jint(ds.concurrency())}}));
                }
            }
            if (m.has_target())
            {
                cover_t cf(n), ct(n);
                fit.loop(flatten_targets_callback_t(
                    [&](tensor_range_t range, size_t tnum, tensor2d_cmap_t flatten, tensor4d_cmap_t targets)
                    {
                        check_rows(cf, range, tnum, batch, to_vec(flatten), eflat, columns);
                        check_rows(ct, range, tnum, batch, to_vec(targets), etarg, tsize);
                    }));
                ++loops;
                if (cf.bad != 0 || ct.bad != 0 || !cf.exactly_once() || !ct.exactly_once())
                {
                    sink.fail(std::string("views:iterator:flatten+targets") + (cached ? ":cached" : ""),
                              jobj({{"batch", jint(batch)}, {"samples", jarr_num(idxv)}, {"bad_flatten", jint(cf.bad.load())},
                                    {"bad_targets", jint(ct.bad.load())}, {"threads", jint(ds.concurrency())}}));
                }
            }
        }
        fit.cache_flatten(0); // documented way to disable the cache again (fixture/generator.h)
    }
    if (m.has_target())
    {
        targets_iterator_t tit(ds, idx);
        for (const auto batch : batches)
        {
            tit.batch(batch);
            cover_t cover(n);
            tit.loop(targets_callback_t([&](tensor_range_t range, size_t tnum, tensor4d_cmap_t targets)
                                        { check_rows(cover, range, tnum, batch, to_vec(targets), etarg, tsize); }));
            ++loops;
            if (cover.bad != 0 || !cover.exactly_once())
            {
                sink.fail("views:iterator:targets", jobj({{"batch", jint(batch)}, {"samples", jarr_num(idxv)},
                                                          {"bad_chunks", jint(cover.bad.load())}}));
            }
        }
        if (tit.cache_targets(tensor_size_t(1) << 24))
        {
            tit.batch(2);
            cover_t cover(n);
            tit.loop(targets_callback_t([&](tensor_range_t range, size_t tnum, tensor4d_cmap_t targets)
                                        { check_rows(cover, range, tnum, 2, to_vec(targets), etarg, tsize); }));
            ++loops;
            if (cover.bad != 0 || !cover.exactly_once())
            {
                sink.fail("views:iterator:targets:cached", jobj({{"samples", jarr_num(idxv)}}));
            }
        }
    }
    return loops;
}

std::vector<std::vector<tensor_size_t>> index_lists(const int N)
{
    std::vector<std::vector<tensor_size_t>> lists(6);
    for (int s = 0; s < N; ++s)
    {
        lists[0].push_back(s);
        lists[1].push_back(N - 1 - s);
        lists[2].push_back(N - 1);
    }
    lists[3] = {0, 0, N - 1, N - 1};
    lists[4] = {N / 2};
    return lists;
}
const char* LISTS_JSON = "[\"0..N-1\",\"N-1..0\",\"N times N-1\",\"(0,0,N-1,N-1)\",\"(N/2)\",\"empty\"]";

// ---------------------------------------------------------------------------------------------
// schemas
const std::vector<std::vector<int>> FIXED_SCHEMAS = {
    // every storage type once
    {1, 3, 4, 5, 6, 7, 8, 9, 10, 11, 12, 13},
    // categorical + structured heavy, with repeats
    {0, 2, 3, 14, 15, 16, 1, 5, 3, 10, 14, 9},
    // everything that lives in the uint8 pool, interleaved
    {0, 10, 3, 15, 1, 10, 3, 10, 0, 15, 10, 1},
    // widest types first
    {13, 12, 11, 10, 9, 8, 7, 6, 5, 4, 2, 14},
};

/// schema number -> kinds: lengths 1..maxlen over the NK kinds (shorter first), then the fixed schemas
struct schemas_t
{
    int                           maxlen = 2;
    std::vector<int>              thin; ///< the kinds used for length-3 schemas (empty: all)
    std::vector<std::vector<int>> list;

    explicit schemas_t(const int maxlen_, std::vector<int> thin3 = {})
        : maxlen(maxlen_)
        , thin(std::move(thin3))
    {
        for (int a = 0; a < NK; ++a)
        {
            list.push_back({a});
        }
        for (int a = 0; a < NK; ++a)
        {
            for (int b = 0; b < NK; ++b)
            {
                list.push_back({a, b});
            }
        }
        if (maxlen >= 3)
        {
            std::vector<int> alpha = thin;
            if (alpha.empty())
            {
                for (int a = 0; a < NK; ++a)
                {
                    alpha.push_back(a);
                }
            }
            for (const auto a : alpha)
            {
                for (const auto b : alpha)
                {
                    for (const auto c : alpha)
                    {
                        list.push_back({a, b, c});
                    }
                }
            }
        }
        for (const auto& f : FIXED_SCHEMAS)
        {
            list.push_back(f);
        }
    }
};

std::string schema_str(const std::vector<int>& schema)
{
    std::string s;
    for (size_t i = 0; i < schema.size(); ++i)
    {
        s += (i ? "," : "") + std::string(KINDS[static_cast<size_t>(schema[i])].name);
    }
    return s;
}

// =============================================================================================
// stage "views"
/// one outer case of the views lattices
void run_views_case(report_t& r, const std::string& one, std::vector<int> schema, const int N, const int mask, const int tkind,
                    const int stack, const size_t nthr, const bool do_sample)
{
    // a crash inside a case is a memory error of the library on valid calls: the driver attributes it to this line
    std::fprintf(stderr, "CASE %s\n", one.c_str());
    if (stack_appends_gradient_input(stack))
    {
        schema.push_back(K_GRAD);
    }
    const auto tpos  = tkind < 0 ? 0U : static_cast<size_t>(tkind) % (schema.size() + 1);
    const auto model = make_model(schema, N, mask, tkind, tpos);
    const auto desc  = [&]
    {
        return jobj({{"table", jstr(model.str())}, {"mask", jint(mask)}, {"stack", jint(stack)}, {"threads", jint(nthr)}});
    };
    sink_t sink;
    try
    {
        const auto source = make_source(model);
        dataset_t  dataset(*source, nthr);
        add_generators(dataset, stack, model.inputs.size());
        std::vector<gfeat_t> feats;
        if (identify(dataset, model, stack, feats, sink))
        {
            buffers_t                   buffers;
            const std::vector<fstate_t> plain(feats.size());
            for (const auto& idx : index_lists(N))
            {
                r.evaluations += static_cast<uint64_t>(check_direct(dataset, model, feats, plain, idx, buffers, sink, "views"));
                r.evaluations += static_cast<uint64_t>(check_iterators(dataset, model, feats, idx, {1, 2, N, N + 1}, sink));
            }
        }
    }
    catch (const std::exception& e)
    {
        sink.fail("views:unexpected-exception", jobj({{"what", jstr(e.what())}}));
    }
    // non-trivial: some input column has both given and missing samples (the mask bits really select)
    bool mixed = false, any_missing = false;
    for (const auto c : model.inputs)
    {
        int given = 0;
        for (const auto& v : model.cols[c].values)
        {
            given += v ? 1 : 0;
        }
        mixed       = mixed || (given > 0 && given < N);
        any_missing = any_missing || given < N;
    }
    if (mixed)
    {
        ++r.nontrivial;
    }
    r.outcome(mixed ? "given and missing samples mixed" : any_missing ? "whole columns missing" : "nothing missing");
    for (const auto& f : sink.fails)
    {
        r.violation(f.first, one, jobj({{"case", desc()}, {"observed", f.second}}));
    }
    if (do_sample)
    {
        r.sample(desc());
    }
}

int stage_views(const args_t& args, report_t& r)
{
    const bool T = args.thorough();
    // thorough: length-3 schemas over 12 of the 16 kinds (the middle-width integers i16, i32, u16, u32 are left out)
    const schemas_t        schemas(T ? 3 : 2, {0, 1, 2, 3, 4, 5, 6, 9, 10, 13, 14, 15});
    const std::vector<int> Ns = {1, 7, 8, 9, 17};
    // (target kind or -1, stack): every target kind once with the identity stack; the other stacks with 3 targets
    std::vector<std::pair<int, int>> combos;
    for (int t = -1; t < NK; ++t)
    {
        combos.emplace_back(t, 0);
    }
    for (int stack = 1; stack < NSTACKS; ++stack)
    {
        for (const int t : {-1, 5, 3})
        {
            combos.emplace_back(t, stack);
        }
    }
    const auto schema_text = jobj(
        {{"kinds", kinds_json()},
         {"sequences", jstr(T ? "all of length 1..2 over the 16 kinds, all of length 3 over the 12 kinds without i16, i32, u16, u32, "
                                "4 fixed 12-feature schemas"
                              : "all of length 1..2 over the 16 kinds, 4 fixed 12-feature schemas")}});
    r.axis("sample_index_lists", LISTS_JSON);
    r.axis("iterator_batch_sizes", jstr("1, 2, N, N+1 (plus cached flatten/targets with batch 2)"));
    r.axis("stacks", STACKS_JSON);

    lattice_t lat;
    lat.axis("schema", schemas.list.size(), schema_text);
    lat.axis("samples", Ns.size(), jarr_num(Ns));
    lat.axis("mask", 6, MASKS_JSON);
    lat.axis("target_x_stack", combos.size(),
             jstr("stack 0 x {absent, each of the 16 kinds once (kind k inserted at table position k mod (len+1))}; stacks 1..4 x {absent, "
                  "f64, mclass3}"));
    lat.describe(r, "views.");
    r.axis("views.threads", jstr("1"));
    for_each_case(lat, r, "views", [&](const uint64_t index, const std::vector<uint64_t>& d) {
        run_views_case(r, "views:" + std::to_string(index), schemas.list[d[0]], Ns[d[1]], static_cast<int>(d[2]), combos[d[3]].first,
                       combos[d[3]].second, 1U, index % 4999 == 0);
    });

    // every class count of the quantifier's range 2..300 (storage type switches at 256): the single-label feature next to
    // other byte-stored features, in both table orders
    {
        static std::vector<std::string> names;
        names.reserve(512);
        const auto base = static_cast<int>(KINDS.size());
        for (int k = 2; k <= 300; ++k)
        {
            names.push_back("sclass" + std::to_string(k));
            KINDS.push_back({names.back().c_str(), SCLASS, k, feature_type::sclass, make_dims(1, 1, 1)});
        }
        const std::vector<int> cl_Ns    = {7, 17};
        const std::vector<int> cl_masks = {0, 4};
        lattice_t              cl;
        cl.axis("classes", 299, jstr("single-label feature with 2..300 classes, together with sclass3, mclass3 and u8 features"));
        cl.axis("order", 2, jstr("the K-class feature first | last"));
        cl.axis("samples", cl_Ns.size(), jarr_num(cl_Ns));
        cl.axis("mask", cl_masks.size(), jstr("all given | every other"));
        cl.describe(r, "classes.");
        for_each_case(cl, r, "classes", [&](const uint64_t index, const std::vector<uint64_t>& d) {
            const int        kind   = base + static_cast<int>(d[0]);
            std::vector<int> schema = d[1] == 0 ? std::vector<int>{kind, 1, 3, 10} : std::vector<int>{10, 3, 1, kind};
            run_views_case(r, "classes:" + std::to_string(index), schema, cl_Ns[d[2]], cl_masks[d[3]], -1, 0, 1U, index % 499 == 0);
        });
    }

    // the same checks on datasets with a thread pool of 2 and 16 workers (select iterator over features, flatten/targets
    // iterators over sample chunks), on a thinner lattice: pools of 16 threads cost ~10-50 ms per dataset
    std::vector<std::vector<int>> mt_schemas;
    if (T)
    {
        mt_schemas = schemas_t(2).list;
    }
    else
    {
        for (int k = 0; k < NK; ++k)
        {
            mt_schemas.push_back({k});
        }
        mt_schemas.insert(mt_schemas.end(), FIXED_SCHEMAS.begin(), FIXED_SCHEMAS.end());
    }
    const std::vector<int>                 mt_Ns      = {1, 8, 17};
    const std::vector<int>                 mt_masks   = {0, 4};
    const std::vector<std::pair<int, int>> mt_combos  = {{-1, 0}, {3, 0}, {-1, 3}, {3, 3}, {5, 4}};
    const std::vector<int>                 mt_threads = {2, 16};
    lattice_t                              mt;
    mt.axis("schema", mt_schemas.size(), jstr(T ? "all of length 1..2 over the 16 kinds, 4 fixed schemas" : "each kind alone, 4 fixed schemas"));
    mt.axis("samples", mt_Ns.size(), jarr_num(mt_Ns));
    mt.axis("mask", mt_masks.size(), jstr("all given | every other"));
    mt.axis("target_x_stack", mt_combos.size(), jstr("(absent,0) (mclass3,0) (absent,3) (mclass3,3) (f64,4)"));
    mt.axis("threads", mt_threads.size(), jarr_num(mt_threads));
    mt.describe(r, "viewsmt.");
    for_each_case(mt, r, "viewsmt", [&](const uint64_t index, const std::vector<uint64_t>& d) {
        run_views_case(r, "viewsmt:" + std::to_string(index), mt_schemas[d[0]], mt_Ns[d[1]], mt_masks[d[2]], mt_combos[d[3]].first,
                       mt_combos[d[3]].second, static_cast<size_t>(mt_threads[d[4]]), index % 499 == 0);
    });
    return r.finish();
}

// =============================================================================================
// stage "bounds": every probe is one call in a forked child (fresh data source + dataset inside the child)
struct probe_t
{
    std::string                call;    ///< select | flatten | targets | target-select | drop | shuffle | feature | shuffled
    tensor_size_t              feature = 0;
    std::vector<tensor_size_t> samples;
    bool                       valid = false; ///< control: must be accepted
    std::string                klass;         ///< what is out of range
    std::string str() const
    {
        return call + "(feature=" + std::to_string(feature) + ", samples=" + jarr_num(samples) + ")";
    }
};

constexpr int EXIT_THREW    = 10;
constexpr int EXIT_RETURNED = 11;
constexpr int EXIT_SKIPPED  = 13;

/// runs in the child: 10 = rejected with an exception, 11 = returned normally
int run_probe(const model_t& model, const int stack, const probe_t& p)
{
    const auto source = make_source(model);
    dataset_t  dataset(*source, 1U);
    add_generators(dataset, stack, model.inputs.size());
    buffers_t  b;
    const auto idx = to_indices(p.samples);
    try
    {
        std::vector<double> got;
        if (p.call == "select")
        {
            // the overload is chosen by the descriptor of a valid feature of the same position when the index is valid,
            // otherwise all four overloads are tried by the caller through p.klass
            if (p.feature >= 0 && p.feature < dataset.features())
            {
                bool shape_ok = true;
                got           = do_select(dataset, idx, p.feature, dataset.feature(p.feature), b, shape_ok);
            }
            else if (p.klass.find("sclass") != std::string::npos)
            {
                got = to_vec(dataset.select(idx, p.feature, b.sclass));
            }
            else if (p.klass.find("mclass") != std::string::npos)
            {
                got = to_vec(dataset.select(idx, p.feature, b.mclass));
            }
            else if (p.klass.find("scalar") != std::string::npos)
            {
                got = to_vec(dataset.select(idx, p.feature, b.scalar));
            }
            else
            {
                got = to_vec(dataset.select(idx, p.feature, b.structured));
            }
        }
        else if (p.call == "flatten")
        {
            got = to_vec(dataset.flatten(idx, b.flatten));
        }
        else if (p.call == "targets")
        {
            got = to_vec(dataset.targets(idx, b.targets));
        }
        else if (p.call == "target-select")
        {
            const auto& t = dataset.target();
            got = t.is_sclass()   ? to_vec(dataset.select(idx, b.sclass))
                  : t.is_mclass() ? to_vec(dataset.select(idx, b.mclass))
                  : t.is_scalar() ? to_vec(dataset.select(idx, b.scalar))
                                  : to_vec(dataset.select(idx, b.structured));
        }
        else if (p.call == "drop")
        {
            dataset.drop(p.feature);
        }
        else if (p.call == "shuffle")
        {
            dataset.shuffle(p.feature);
        }
        else if (p.call == "feature")
        {
            got.push_back(static_cast<double>(dataset.feature(p.feature).classes()));
        }
        else if (p.call == "shuffled")
        {
            // documented use: after shuffle(feature); here the feature index itself is out of range
            got = to_vec(dataset.shuffled(p.feature, idx));
        }
        else if (p.call == "add-generator")
        {
            // a generator restricted to a subset of the data source's features: p.feature is the (possibly invalid) index
            dataset.add<scalar_identity_generator_t>(make_indices(0, p.feature));
            dataset.add<pairwise_product_generator_t>(make_indices(0, p.feature));
            got.push_back(static_cast<double>(dataset.features()));
        }
        else if (p.call == "shuffled-after-shuffle")
        {
            // the reported bijection of a shuffled feature, asked for a list of sample indices
            dataset.shuffle(p.feature);
            got = to_vec(dataset.shuffled(p.feature, idx));
        }
        got.resize(std::min<size_t>(got.size(), 12));
        std::fprintf(stderr, "RETURNED %s\n", jarr_num(got).c_str());
    }
    catch (const std::exception& e)
    {
        std::fprintf(stderr, "THREW %.200s\n", e.what());
        return EXIT_THREW;
    }
    return EXIT_RETURNED;
}

struct probe_result_t
{
    int         code = -1; ///< exit code, or 1000 + signal
    std::string log;
};

/// run the probes in forked children: one child works through the list and reports every result over a pipe; when a probe
/// kills the child (sanitizer report, signal) that probe is recorded as crashed and a new child continues after it
template <class tklass, class tbody>
std::vector<probe_result_t> fork_each(const size_t count, const tklass& klass_of, const tbody& body, uint64_t& forks)
{
    std::vector<probe_result_t>  results(count);
    std::map<std::string, int>   crashes; ///< per out-of-range class: a class that killed two children is not probed further
    size_t                       next = 0;
    while (next < count)
    {
        int fds[2];
        std::fflush(stdout);
        std::fflush(stderr);
        if (pipe(fds) != 0)
        {
            std::perror("pipe");
            std::exit(2);
        }
        const auto pid = fork();
        if (pid < 0)
        {
            std::perror("fork");
            std::exit(2);
        }
        ++forks;
        if (pid == 0)
        {
            close(fds[0]);
            dup2(fds[1], 2);
            close(fds[1]);
            for (size_t i = next; i < count; ++i)
            {
                std::fprintf(stderr, "\n@BEGIN %zu\n", i);
                std::fflush(stderr);
                int        code = 12;
                const auto seen = crashes.find(klass_of(i));
                if (seen != crashes.end() && seen->second >= 2)
                {
                    code = EXIT_SKIPPED;
                }
                else
                {
                    try
                    {
                        code = body(i);
                    }
                    catch (...)
                    {
                        code = 12;
                    }
                }
                std::fprintf(stderr, "\n@END %zu %d\n", i, code);
                std::fflush(stderr);
            }
            _exit(0);
        }
        close(fds[1]);
        std::string text;
        char        buf[4096];
        ssize_t     n = 0;
        while ((n = read(fds[0], buf, sizeof(buf))) > 0)
        {
            text.append(buf, static_cast<size_t>(n));
        }
        close(fds[0]);
        int status = 0;
        waitpid(pid, &status, 0);
        const int code = WIFEXITED(status) ? WEXITSTATUS(status) : 1000 + (WIFSIGNALED(status) ? WTERMSIG(status) : 0);
        size_t    pos  = 0;
        bool      died = false;
        for (size_t i = next; i < count; ++i)
        {
            const auto btag = "\n@BEGIN " + std::to_string(i) + "\n";
            const auto etag = "\n@END " + std::to_string(i) + " ";
            const auto b    = text.find(btag, pos);
            if (b == std::string::npos)
            {
                std::fprintf(stderr, "probe child ended (status %d) before probe %zu\n%s\n", code, i, text.substr(0, 2000).c_str());
                std::exit(2);
            }
            const auto e = text.find(etag, b);
            if (e == std::string::npos)
            {
                results[i].code = code == 0 ? 1999 : code;
                crashes[klass_of(i)] += 1;
                results[i].log  = text.substr(b + btag.size(), 6000);
                next            = i + 1;
                died            = true;
                break;
            }
            results[i].code = std::atoi(text.c_str() + e + etag.size());
            results[i].log  = text.substr(b + btag.size(), e - b - btag.size());
            pos             = e;
        }
        if (!died)
        {
            next = count;
        }
    }
    return results;
}

std::vector<probe_result_t> fork_probes(const model_t& model, const int stack, const std::vector<probe_t>& probes, uint64_t& forks)
{
    return fork_each(
        probes.size(), [&](const size_t i) { return probes[i].klass; },
        [&](const size_t i) { return run_probe(model, stack, probes[i]); }, forks);
}

std::string sanitizer_headline(const std::string& log)
{
    for (const char* needle : {"ERROR: AddressSanitizer", "runtime error:", "AddressSanitizer:", "SUMMARY:"})
    {
        const auto p = log.find(needle);
        if (p != std::string::npos)
        {
            const auto e = log.find('\n', p);
            (void)e;
            return log.substr(p, 1500);
        }
    }
    return log.substr(0, std::min<size_t>(log.size(), 200));
}

int stage_bounds(const args_t& args, report_t& r)
{
    const std::vector<std::vector<int>> schemas = [&]
    {
        std::vector<std::vector<int>> s;
        for (int k = 0; k <= K_GRAD; ++k)
        {
            s.push_back({k});
        }
        s.push_back({0, 0});
        s.push_back({5, 5});
        s.push_back({10, 15});
        s.push_back({3, 1});
        s.push_back({4, 9, 13});
        s.push_back(FIXED_SCHEMAS[0]);
        s.push_back(FIXED_SCHEMAS[1]);
        return s;
    }();
    const std::vector<int> Ns      = {1, 7, 8, 9, 17};
    const std::vector<int> targets = {-1, 1, 5}; // absent, sclass3, f64
    lattice_t              lat;
    lat.axis("schema", schemas.size(), jstr("each of the 17 kinds alone, (sclass2,sclass2), (f64,f64), (u8,su8_3x3x2), (mclass3,sclass3), "
                                            "(f32,i64,u64), fixed schemas 0 and 1"));
    lat.axis("samples", Ns.size(), jarr_num(Ns));
    lat.axis("mask", 2, jstr("all given | every other"));
    lat.axis("target", targets.size(), jstr("absent | sclass3 (last) | f64 (first)"));
    lat.describe(r);
    r.axis("generators", jstr("identity x4 + product + gradient (schemas of <= 3 inputs), identity x4 (fixed schemas)"));
    r.axis("probes", jstr("select(every feature)/flatten/targets/target-select with sample lists (N) (0,N) (N,0) (-1) (0,-1) (N+1); "
                          "drop/shuffle/feature/shuffled/select x4 with feature -1 and features(); controls with valid indices "
                          "(N-1), (0,N-1), feature 0 and features()-1 must be accepted; one forked child per probe under ASan+UBSan"));
    (void)args;
    uint64_t total_forks = 0;

    for_each_case(lat, r, "bounds", [&](const uint64_t index, const std::vector<uint64_t>& d) {
        std::fprintf(stderr, "CASE bounds:%llu\n", static_cast<unsigned long long>(index));
        std::fflush(stderr);
        const auto& schema = schemas[d[0]];
        const int   N      = Ns[d[1]];
        const int   mask   = d[2] == 0 ? 0 : 4;
        const int   tkind  = targets[d[3]];
        const auto  tpos   = tkind == 5 ? 0U : schema.size();
        const auto  model  = make_model(schema, N, mask, tkind, tpos);
        const int   stack  = schema.size() <= 3 ? STACK_ALL : 0;
        const auto  one    = "bounds:" + std::to_string(index);

        // number of generated features, from the table alone
        tensor_size_t F = static_cast<tensor_size_t>(model.inputs.size());
        if (stack == STACK_ALL)
        {
            tensor_size_t scalars = 0;
            for (const auto c : model.inputs)
            {
                const auto& f = model.cols[c].feature;
                scalars += f.is_scalar() ? 1 : 0;
                if (f.is_struct() && std::get<1>(f.dims()) >= 3 && std::get<2>(f.dims()) >= 3)
                {
                    F += 4 * std::get<0>(f.dims());
                }
            }
            F += scalars * (scalars + 1) / 2;
        }
        std::vector<probe_t> probes;
        const std::vector<std::pair<std::vector<tensor_size_t>, std::string>> bad_lists = {
            {{N}, "sample-index-equal-to-samples"},         {{0, N}, "sample-index-equal-to-samples"},
            {{N, 0}, "sample-index-equal-to-samples"},      {{-1}, "sample-index-minus-one"},
            {{0, -1}, "sample-index-minus-one"},            {{N + 1}, "sample-index-samples-plus-one"}};
        const std::vector<std::vector<tensor_size_t>> good_lists = {{N - 1}, {0, N - 1}};
        const auto add_sample_probes = [&](const std::string& call, const tensor_size_t feature)
        {
            for (const auto& bl : bad_lists)
            {
                probes.push_back({call, feature, bl.first, false, bl.second});
            }
            for (const auto& gl : good_lists)
            {
                probes.push_back({call, feature, gl, true, "valid"});
            }
        };
        for (tensor_size_t f = 0; f < F; ++f)
        {
            // per feature: (N), (0,N), (-1) and one control; the full set of lists goes to feature 0 and to flatten/targets
            if (f == 0)
            {
                add_sample_probes("select", f);
                continue;
            }
            probes.push_back({"select", f, {N}, false, "sample-index-equal-to-samples"});
            probes.push_back({"select", f, {0, N}, false, "sample-index-equal-to-samples"});
            probes.push_back({"select", f, {-1}, false, "sample-index-minus-one"});
            probes.push_back({"select", f, {N - 1}, true, "valid"});
        }
        add_sample_probes("flatten", 0);
        add_sample_probes("shuffled-after-shuffle", 0);
        if (model.has_target())
        {
            add_sample_probes("targets", 0);
            add_sample_probes("target-select", 0);
        }
        for (const tensor_size_t x : {tensor_size_t(-1), F})
        {
            const std::string klass = x < 0 ? "feature-index-minus-one" : "feature-index-equal-to-features";
            for (const char* call : {"drop", "shuffle", "feature", "shuffled"})
            {
                probes.push_back({call, x, {0}, false, klass});
            }
            for (const char* cls : {"sclass", "mclass", "scalar", "struct"})
            {
                probes.push_back({"select", x, {0}, false, klass + ":" + cls});
            }
        }
        {
            const auto S = static_cast<tensor_size_t>(model.inputs.size()) + (model.has_target() ? 1 : 0);
            for (const tensor_size_t x : {tensor_size_t(-1), S, S + 7})
            {
                probes.push_back({"add-generator", x, {0}, false, "generator-feature-index-out-of-range"});
            }
            probes.push_back({"add-generator", 0, {0}, true, "valid"});
        }
        for (const tensor_size_t x : {tensor_size_t(0), F - 1})
        {
            for (const char* call : {"drop", "shuffle", "feature"})
            {
                probes.push_back({call, x, {0}, true, "valid"});
            }
        }

        uint64_t   forks   = 0;
        const auto results = fork_probes(model, stack, probes, forks);
        total_forks += forks;
        for (size_t ip = 0; ip < probes.size(); ++ip)
        {
            const auto& p   = probes[ip];
            const auto& res = results[ip];
            if (res.code == EXIT_SKIPPED)
            {
                r.outcome("not probed: this class already killed two children in this configuration");
                continue;
            }
            r.evaluations += 1;
            const bool threw    = res.code == EXIT_THREW;
            const bool returned = res.code == EXIT_RETURNED;
            const auto detail   = [&](const std::string& expected)
            {
                return jobj({{"table", jstr(model.str())}, {"call", jstr(p.str())}, {"features", jint(F)},
                             {"expected", jstr(expected)},
                             {"observed", jstr(threw ? "exception" : returned ? "returned normally (no exception)" : "sanitizer report / crash")},
                             {"exit_code", jint(res.code)}, {"child_output", jstr(sanitizer_headline(res.log))}});
            };
            if (p.valid)
            {
                r.outcome("valid index accepted", returned ? 1 : 0);
                if (!returned)
                {
                    r.violation(threw ? "bounds:valid-index-rejected:" + p.call : "bounds:valid-index-crash:" + p.call, one,
                                detail("accepted"));
                }
                continue;
            }
            ++r.nontrivial;
            if (threw)
            {
                r.outcome("out-of-range index rejected with an exception");
                continue;
            }
            r.outcome(returned ? "out-of-range index accepted silently" : "out-of-range index read (sanitizer)");
            r.violation("bounds:" + p.klass.substr(0, p.klass.find(':')) + "-accepted", one, detail("exception, nothing read"));
        }
        if (index % 97 == 0)
        {
            r.sample(jobj({{"table", jstr(model.str())}, {"probes", jint(probes.size())}}));
        }
    });
    r.note("forked_children", jint(total_forks));
    return r.finish();
}

// =============================================================================================
// stage "pairs" (ASan build): the pairwise product constructed from two feature lists, every case in a forked child
constexpr int EXIT_MISMATCH = 20;

int stage_pairs(const args_t& args, report_t& r)
{
    struct pcase_t
    {
        int                        K = 2; ///< scalar inputs; input 1 is an sclass3 feature that the generator must ignore
        std::vector<tensor_size_t> list1, list2;
    };
    std::vector<pcase_t> cases;
    const int            maxK = args.thorough() ? 4 : 3;
    for (int K = 2; K <= maxK; ++K)
    {
        const int inputs = K + 1;
        for (int rev = 0; rev < (args.thorough() ? 2 : 1); ++rev)
        {
            for (int m1 = 1; m1 < (1 << inputs); ++m1)
            {
                for (int m2 = 1; m2 < (1 << inputs); ++m2)
                {
                    pcase_t c;
                    c.K = K;
                    for (int i = 0; i < inputs; ++i)
                    {
                        const int j = rev ? inputs - 1 - i : i;
                        if (m1 & (1 << j))
                        {
                            c.list1.push_back(j);
                        }
                        if (m2 & (1 << j))
                        {
                            c.list2.push_back(j);
                        }
                    }
                    cases.push_back(std::move(c));
                }
            }
        }
    }
    r.axis("dataset", jstr("N=7, every other value missing, inputs (scalar, sclass3, scalar[, scalar[, scalar]]) with scalar kinds f64, i16, u64, f32"));
    r.axis("generators", jstr("scalar identity + pairwise_product_generator_t(features1, features2)"));
    r.axis("feature_lists", jstr(args.thorough() ? "all pairs of non-empty subsets of the inputs, K = 2..4 scalars, ascending and descending"
                                                 : "all pairs of non-empty subsets of the inputs, K = 2..3 scalars, ascending"));
    lattice_t lat;
    lat.axis("case", cases.size(), "");
    lat.describe(r, "pairs.");
    uint64_t total_forks = 0;
    // run this shard's cases in forked children (a sanitizer report ends one child, the next continues)
    std::vector<uint64_t> mine;
    for_each_case(lat, r, "pairs", [&](const uint64_t index, const std::vector<uint64_t>&) { mine.push_back(index); });
    const auto make = [&](const pcase_t& c)
    {
        const int        kinds[] = {5, 7, 13, 4};
        std::vector<int> schema;
        for (int k = 0; k < c.K; ++k)
        {
            schema.push_back(kinds[k]);
            if (k == 0)
            {
                schema.push_back(1);
            }
        }
        return make_model(schema, 7, 4, -1, 0);
    };
    const auto expected = [&](const model_t& m, const pcase_t& c)
    {
        std::multiset<std::string> e;
        for (const auto col : m.inputs)
        {
            if (m.cols[col].feature.is_scalar())
            {
                e.insert("id:" + m.cols[col].feature.name());
            }
        }
        std::set<std::pair<size_t, size_t>> pairs;
        for (const auto a : c.list1)
        {
            for (const auto b : c.list2)
            {
                const auto ca = m.inputs[static_cast<size_t>(a)], cb = m.inputs[static_cast<size_t>(b)];
                if (m.cols[ca].feature.is_scalar() && m.cols[cb].feature.is_scalar())
                {
                    pairs.insert({std::min(ca, cb), std::max(ca, cb)});
                }
            }
        }
        for (const auto& p : pairs)
        {
            e.insert("prod:" + m.cols[p.first].feature.name() + "*" + m.cols[p.second].feature.name());
        }
        return e;
    };
    const auto body = [&](const size_t i)
    {
        const auto& c = cases[mine[i]];
        const auto  m = make(c);
        sink_t      sink;
        try
        {
            const auto source = make_source(m);
            dataset_t  dataset(*source, 1U);
            dataset.add<scalar_identity_generator_t>();
            dataset.add<pairwise_product_generator_t>(to_indices(c.list1), to_indices(c.list2));
            std::vector<gfeat_t> feats;
            if (identify(dataset, m, -1, feats, sink))
            {
                std::multiset<std::string> got;
                for (const auto& g : feats)
                {
                    got.insert(g.signature);
                }
                const auto e = expected(m, c);
                if (got != e)
                {
                    sink.fail("pairs:feature-set", jobj({{"got", jarr_str(std::vector<std::string>(got.begin(), got.end()))},
                                                         {"expected", jarr_str(std::vector<std::string>(e.begin(), e.end()))}}));
                }
                buffers_t                   buffers;
                const std::vector<fstate_t> plain(feats.size());
                for (const auto& idx : index_lists(7))
                {
                    check_direct(dataset, m, feats, plain, idx, buffers, sink, "pairs");
                }
            }
        }
        catch (const std::exception& e)
        {
            sink.fail("pairs:unexpected-exception", jobj({{"what", jstr(e.what())}}));
        }
        for (const auto& f : sink.fails)
        {
            std::fprintf(stderr, "@FAIL %s\t%s\n", f.first.c_str(), f.second.c_str());
        }
        return sink.ok() ? 0 : EXIT_MISMATCH;
    };
    if (!mine.empty())
    {
        std::fprintf(stderr, "CASE pairs:%llu\n", static_cast<unsigned long long>(mine.front()));
        std::fflush(stderr);
    }
    const auto results = fork_each(
        mine.size(), [&](const size_t i) { return "case" + std::to_string(i); }, body, total_forks);
    for (size_t i = 0; i < mine.size(); ++i)
    {
        const auto& c   = cases[mine[i]];
        const auto  m   = make(c);
        const auto  one = "pairs:" + std::to_string(mine[i]);
        const auto& res = results[i];
        r.evaluations += 1;
        const bool swapped = [&]
        {
            for (const auto a : c.list1)
            {
                for (const auto b : c.list2)
                {
                    if (a > b && a != 1 && b != 1)
                    {
                        return true;
                    }
                }
            }
            return false;
        }();
        r.nontrivial += swapped ? 1 : 0;
        const auto desc = jobj({{"table", jstr(m.str())}, {"features1", jarr_num(c.list1)}, {"features2", jarr_num(c.list2)}});
        if (res.code == 0)
        {
            r.outcome(swapped ? "agrees (some pair has its larger input in features1)" : "agrees");
            continue;
        }
        if (res.code == EXIT_MISMATCH)
        {
            r.outcome("views disagree with the table");
            size_t pos = 0;
            while ((pos = res.log.find("@FAIL ", pos)) != std::string::npos)
            {
                const auto tab = res.log.find('\t', pos), eol = res.log.find('\n', pos);
                if (tab == std::string::npos || eol == std::string::npos || tab > eol)
                {
                    break;
                }
                r.violation(res.log.substr(pos + 6, tab - pos - 6), one,
                            jobj({{"case", desc}, {"observed", res.log.substr(tab + 1, eol - tab - 1)}}));
                pos = eol;
            }
            continue;
        }
        r.outcome("sanitizer report / crash");
        r.violation("pairs:two-list-product:memory-error", one,
                    jobj({{"case", desc}, {"exit_code", jint(res.code)}, {"child_output", jstr(sanitizer_headline(res.log))}}));
        if (i % 37 == 0)
        {
            r.sample(desc);
        }
    }
    r.note("forked_children", jint(total_forks));
    return r.finish();
}

// =============================================================================================
// stage "history": BFS over drop / shuffle / undrop / unshuffle histories
struct hconfig_t
{
    int schema = 0; ///< 0: (sclass20, f64, sf32_2x1x2) = three generators; 1: (f32, i16, u64) = one generator
    int N      = 7;
    std::string str() const { return "hist:" + std::to_string(schema) + ":" + std::to_string(N); }
    std::vector<int> kinds() const { return schema == 0 ? std::vector<int>{K_S20, 5, 14} : std::vector<int>{4, 7, 13}; }
};
constexpr int HOPS = 8;
std::string op_name(const int op)
{
    return op < 3 ? "drop(" + std::to_string(op) + ")" : op < 6 ? "shuffle(" + std::to_string(op - 3) + ")" : op == 6 ? "undrop" : "unshuffle";
}
std::string hist_str(const std::vector<int>& h)
{
    std::string s;
    for (size_t i = 0; i < h.size(); ++i)
    {
        s += (i ? "," : "") + std::to_string(h[i]);
    }
    return s;
}
std::string hist_names(const std::vector<int>& h)
{
    std::string s;
    for (size_t i = 0; i < h.size(); ++i)
    {
        s += (i ? " " : "") + op_name(h[i]);
    }
    return s;
}

struct hrunner_t
{
    hconfig_t cfg;
    report_t* r = nullptr;
    uint64_t  nonplain = 0;

    std::string apply(const std::vector<int>& hist)
    {
        const auto model = make_model(cfg.kinds(), cfg.N, 2, -1, 0); // sample 0 missing in every feature
        const auto one   = cfg.str() + "|" + hist_str(hist);
        const auto N     = static_cast<tensor_size_t>(cfg.N);
        std::fprintf(stderr, "CASE %s\n", one.c_str());
        verif::detrand_reset(0xC08);
        const auto source = make_source(model);
        dataset_t  dataset(*source, 1U);
        vt::add_identity_generators(dataset);
        sink_t               sink;
        std::vector<gfeat_t> feats;
        if (!identify(dataset, model, 0, feats, sink) || !sink.ok() || feats.size() != 3)
        {
            r->violation("history:bookkeeping", one, jobj({{"config", jstr(cfg.str())}}));
            return "";
        }
        std::vector<tensor_size_t> all;
        for (tensor_size_t s = 0; s < N; ++s)
        {
            all.push_back(s);
        }
        const auto            all_idx = to_indices(all);
        std::vector<fstate_t> states(3);
        buffers_t             buffers;
        const auto            fail = [&](const std::string& key, const std::string& detail)
        {
            r->violation(key, one, jobj({{"config", jstr(cfg.str())}, {"table", jstr(model.str())}, {"history", jstr(hist_names(hist))},
                                         {"observed", detail}}));
        };
        const auto expected_select = [&](const size_t f, const fstate_t& st)
        {
            std::vector<double> e;
            for (const auto s : all)
            {
                expect_select(model, feats[f], st.source(s), e);
            }
            return e;
        };
        for (size_t step = 0; step < hist.size(); ++step)
        {
            const int  op   = hist[step];
            const bool last = step + 1 == hist.size();
            // candidates per feature after this operation (what the statement leaves open is listed twice)
            std::vector<std::vector<fstate_t>> cand(3);
            std::vector<bool>                  fresh(3, false); ///< a new permutation has to be read from shuffled()
            for (size_t f = 0; f < 3; ++f)
            {
                cand[f] = {states[f]};
            }
            if (op < 3)
            {
                dataset.drop(op);
                fstate_t d;
                d.mode                       = 1;
                cand[static_cast<size_t>(op)] = {d};
            }
            else if (op < 6)
            {
                const auto f = static_cast<size_t>(op - 3);
                dataset.shuffle(op - 3);
                fstate_t sh;
                sh.mode  = 2;
                fresh[f] = true;
                cand[f]  = {sh};
                if (states[f].mode == 1)
                {
                    fstate_t d;
                    d.mode = 1;
                    cand[f].push_back(d); // shuffling a dropped feature: a permutation of all-missing values is all-missing
                }
            }
            else if (op == 6)
            {
                dataset.undrop();
                for (size_t f = 0; f < 3; ++f)
                {
                    if (states[f].mode == 1)
                    {
                        cand[f] = {fstate_t{}};
                    }
                    else if (states[f].mode == 2)
                    {
                        cand[f] = {states[f], fstate_t{}}; // does undrop() also clear a shuffle? the statement is silent
                    }
                }
            }
            else
            {
                dataset.unshuffle();
                for (size_t f = 0; f < 3; ++f)
                {
                    if (states[f].mode == 2)
                    {
                        cand[f] = {fstate_t{}};
                    }
                    else if (states[f].mode == 1)
                    {
                        cand[f] = {states[f], fstate_t{}}; // does unshuffle() also undrop? the statement is silent
                    }
                }
            }
            // resolve every feature from its per-feature view over all samples
            for (size_t f = 0; f < 3; ++f)
            {
                bool       shape_ok = true;
                const auto got      = do_select(dataset, all_idx, static_cast<tensor_size_t>(f), feats[f].desc, buffers, shape_ok);
                fstate_t   dropped;
                dropped.mode          = 1;
                const bool all_missing = first_diff(got, expected_select(f, dropped)) < 0;
                int        chosen      = -1;
                for (size_t c = 0; c < cand[f].size() && chosen < 0; ++c)
                {
                    auto& st = cand[f][c];
                    if (st.mode == 2 && fresh[f])
                    {
                        if (all_missing && cand[f].size() > 1)
                        {
                            continue; // the implementation kept the feature dropped: shuffled() must not be called
                        }
                        // the reported bijection (only asked for when the reference says the feature is shuffled)
                        const auto          pi = dataset.shuffled(static_cast<tensor_size_t>(f), all_idx);
                        std::vector<int>    seen(static_cast<size_t>(N), 0);
                        bool                bij = pi.size() == N;
                        for (tensor_size_t i = 0; bij && i < N; ++i)
                        {
                            bij = pi(i) >= 0 && pi(i) < N && seen[static_cast<size_t>(pi(i))]++ == 0;
                        }
                        if (!bij)
                        {
                            if (last)
                            {
                                fail("history:shuffled-not-a-bijection", jobj({{"feature", jint(f)}, {"shuffled", jarr_num(to_vec(pi))}}));
                            }
                            return "";
                        }
                        st.perm.assign(pi.data(), pi.data() + N);
                    }
                    if (first_diff(got, expected_select(f, st)) < 0)
                    {
                        chosen = static_cast<int>(c);
                    }
                }
                if (chosen < 0)
                {
                    if (last)
                    {
                        std::vector<std::string> modes;
                        for (const auto& st : cand[f])
                        {
                            modes.emplace_back(st.mode == 0 ? "plain" : st.mode == 1 ? "dropped" : "shuffled " + jarr_num(st.perm));
                        }
                        fail("history:" + std::string(op < 3 ? "drop" : op < 6 ? "shuffle" : op == 6 ? "undrop" : "unshuffle") + ":" +
                                 (f == static_cast<size_t>(op % 3) && op < 6 ? "target-feature" : "other-feature") + ":" + cls_name(feats[f].desc),
                             jobj({{"feature", jint(f)}, {"admissible", jarr_str(modes)}, {"select_over_all_samples", jarr_num(got)},
                                   {"plain_would_be", jarr_num(expected_select(f, fstate_t{}))}}));
                    }
                    return "";
                }
                if (last && cand[f].size() > 1)
                {
                    const auto& st = cand[f][static_cast<size_t>(chosen)];
                    r->outcome(op == 6   ? (st.mode == 2 ? "undrop keeps a shuffle" : "undrop also clears a shuffle")
                               : op == 7 ? (st.mode == 1 ? "unshuffle keeps a drop" : "unshuffle also undrops")
                                         : (st.mode == 2 ? "shuffle overrides a drop" : "shuffle keeps a drop"));
                }
                states[f] = cand[f][static_cast<size_t>(chosen)];
            }
            if (!last)
            {
                continue;
            }
            // the complete comparison in the resolved state: both views, all features, three index lists
            const std::vector<std::vector<tensor_size_t>> lists = {all, std::vector<tensor_size_t>(all.rbegin(), all.rend()), {0, 0, N - 1, N - 1}};
            for (const auto& idx : lists)
            {
                r->evaluations += static_cast<uint64_t>(check_direct(dataset, model, feats, states, idx, buffers, sink, "history", false));
                for (size_t f = 0; f < 3; ++f)
                {
                    if (states[f].mode != 2)
                    {
                        continue;
                    }
                    const auto pi = dataset.shuffled(static_cast<tensor_size_t>(f), to_indices(idx));
                    bool       ok = pi.size() == static_cast<tensor_size_t>(idx.size());
                    for (size_t i = 0; ok && i < idx.size(); ++i)
                    {
                        ok = pi(static_cast<tensor_size_t>(i)) == states[f].perm[static_cast<size_t>(idx[i])];
                    }
                    if (!ok)
                    {
                        sink.fail("history:shuffled-changes", jobj({{"feature", jint(f)}, {"samples", jarr_num(idx)},
                                                                    {"shuffled", jarr_num(to_vec(pi))}, {"all_samples", jarr_num(states[f].perm)}}));
                    }
                }
            }
            for (const auto& fl : sink.fails)
            {
                fail(fl.first, fl.second);
            }
            if (!sink.ok())
            {
                return "";
            }
        }
        // canonical state: the reference state of every feature, plus (history-derived) whether the feature was shuffled
        // since the last unshuffle(): a stale permutation may still be stored for it
        std::string canon;
        bool        any = false;
        for (size_t f = 0; f < 3; ++f)
        {
            bool stale = false;
            for (const auto op : hist)
            {
                stale = op == 7 ? false : (op == static_cast<int>(3 + f) ? true : stale);
            }
            canon += std::to_string(states[f].mode) + (states[f].mode == 2 ? jarr_num(states[f].perm) : "") + (stale ? "s" : "") + ";";
            any = any || states[f].mode != 0;
        }
        nonplain += any ? 1 : 0;
        return canon;
    }
};

int stage_history(const args_t& args, report_t& r)
{
    hrunner_t run;
    run.r = &r;
    if (!args.one.empty())
    {
        std::vector<int> hist;
        if (std::sscanf(args.one.c_str(), "hist:%d:%d", &run.cfg.schema, &run.cfg.N) != 2)
        {
            return r.finish(); // a case of another stage
        }
        const auto bar = args.one.find('|');
        if (bar != std::string::npos)
        {
            const char* q = args.one.c_str() + bar + 1;
            while (*q)
            {
                hist.push_back(static_cast<int>(std::strtol(q, const_cast<char**>(&q), 10)));
                if (*q == ',')
                {
                    ++q;
                }
            }
        }
        run.apply(hist);
        r.transitions = r.states = r.traces = 1;
        return r.finish();
    }
    const int depth = static_cast<int>(args.geti("depth", args.thorough() ? 5 : 4));
    r.axis("datasets", jstr("(sclass20, f64, sf32_2x1x2): one feature per generator | (f32, i16, u64): three features of one generator; "
                            "sample 0 missing, all other values distinct per sample"));
    r.axis("samples", jstr("7, 8, 9, 17"));
    r.axis("operations", jstr("drop(0..2), shuffle(0..2), undrop, unshuffle"));
    r.axis("max_history_length", jint(depth));
    uint64_t index = 0;
    for (int schema = 0; schema < 2; ++schema)
    {
        for (const int N : {7, 8, 9, 17})
        {
            if (!args.mine(index++))
            {
                continue;
            }
            run.cfg.schema = schema;
            run.cfg.N      = N;
            const auto st  = mc::bfs(
                HOPS, depth, [&](const std::vector<int>& h) { return run.apply(h); }, [&] { return r.out_of_time(); });
            r.states += st.states;
            r.transitions += st.transitions;
            r.traces += st.transitions;
            if (!st.replay_ok)
            {
                std::fprintf(stderr, "canon-on-replay failed\n");
                return 2;
            }
            if (!st.complete)
            {
                r.cap("deadline hit in " + run.cfg.str());
            }
            r.sample(jobj({{"config", jstr(run.cfg.str())}, {"states", jint(st.states)}, {"transitions", jint(st.transitions)},
                           {"max_depth", jint(st.max_depth)}}));
        }
    }
    r.nontrivial = run.nonplain;
    r.assume("where the statement is silent (undrop on a shuffled feature, unshuffle on a dropped feature, shuffle of a dropped "
             "feature) either outcome is accepted; the reference continues from the one the implementation shows");
    return r.finish();
}
} // namespace

int main(int argc, char** argv)
{
    const auto args  = parse_args(argc, argv);
    const auto stage = args.stage.empty() ? "views" : args.stage;
    report_t   r("c08/" + stage, args);

    // oracle self-test: the documented encodings, and the comparer must reject a wrong answer
    {
        const auto m = make_model({1, 5}, 3, 2, -1, 0); // sclass3, f64; sample 0 missing
        gfeat_t    g;
        g.col1  = 0;
        g.desc  = m.cols[0].feature;
        g.elems = 1;
        g.width = 2;
        std::vector<double> miss, l1, sel;
        expect_flatten(m, g, 0, miss);
        expect_flatten(m, g, 1, l1); // label (1 + 0 + 0) % 3 = 1
        expect_select(m, g, -1, sel);
        const bool enc = miss.size() == 2 && std::isnan(miss[0]) && std::isnan(miss[1]) && l1 == std::vector<double>{-1.0, +1.0} &&
                         sel == std::vector<double>{-1.0};
        const bool cmp = first_diff({1.0, NaN}, {1.0, NaN}) < 0 && first_diff({1.0, NaN}, {1.0, 0.0}) == 1 &&
                         first_diff({1.0}, {1.0, 2.0}) == 1;
        if (!enc || !cmp)
        {
            std::fprintf(stderr, "oracle self-test failed\n");
            return 2;
        }
    }
    if (stage == "views")
    {
        return stage_views(args, r);
    }
    if (stage == "bounds")
    {
        return stage_bounds(args, r);
    }
    if (stage == "pairs")
    {
        return stage_pairs(args, r);
    }
    if (stage == "history")
    {
        return stage_history(args, r);
    }
    std::fprintf(stderr, "unknown stage %s\n", stage.c_str());
    return 2;
}
