// C09 — ML objectives equal their definitions for any thread count / batch size / caching (E3 lattice).
//
// outer lattice (one dataset_t each, sharded): schema x N x missing-mask x target kind x threads
// inner loops: loss x (l1,l2) x scaling x batch x cached x parameter vector   (linear objective)
//              loss x sample list x batch x cluster assignment x weak outputs x x   (gboost bias / scale / grads)
// oracle: naive per-sample double loop over the whole-list flatten/targets (scaled with the iterator's own
// statistics — scaling itself is property C14), loss evaluated on single-sample tensors.
#include "table_ds.h"
#include "verif.h"
#include <nano/dataset/iterator.h>
#include <nano/gboost/function.h>
#include <nano/linear/function.h>
#include <nano/loss.h>

using namespace nano;
using namespace verif;

namespace
{
struct outer_t
{
    int schema = 0, N = 1, mask = 0, target = 0, threads = 1;
};

const int NS_QUICK[]    = {1, 3, 9};
const int NS_THOROUGH[] = {1, 2, 3, 5, 8, 9, 17};
const int THREADS_Q[]   = {1, 2, 16};
const int THREADS_T[]   = {1, 2, 3, 4, 16};

bool missing(const int mask, const int feature, const int sample)
{
    switch (mask)
    {
    case 1: return feature == 0 && sample == 0;
    case 2: return feature == 0;
    case 3: return (feature + sample) % 2 == 1;
    default: return false;
    }
}

std::unique_ptr<vt::table_datasource_t> make_source(const outer_t& o)
{
    std::vector<vt::column_t> cols;
    cols.push_back(vt::make_scalar("x0"));
    if (o.schema == 0)
    {
        cols.push_back(vt::make_scalar("x1"));
    }
    else if (o.schema == 1)
    {
        cols.push_back(vt::make_sclass("c3", 3));
        cols.push_back(vt::make_mclass("m2", 2));
    }
    else
    {
        cols.push_back(vt::make_struct("s", feature_type::float32, make_dims(2, 1, 2)));
    }
    const auto ntarget = cols.size();
    if (o.target == 0)
    {
        cols.push_back(vt::make_scalar("y"));
    }
    else if (o.target == 1)
    {
        cols.push_back(vt::make_sclass("y", 3));
    }
    else
    {
        cols.push_back(vt::make_mclass("y", 2));
    }
    for (size_t c = 0; c < cols.size(); ++c)
    {
        auto& col = cols[c];
        col.values.resize(static_cast<size_t>(o.N));
        for (int s = 0; s < o.N; ++s)
        {
            if (c != ntarget && missing(o.mask, static_cast<int>(c), s))
            {
                continue;
            }
            std::vector<double> v;
            const auto          w = col.width();
            if (col.feature.is_sclass())
            {
                v.push_back(static_cast<double>((s + static_cast<int>(c)) % static_cast<int>(col.feature.classes())));
            }
            else if (col.feature.is_mclass())
            {
                for (tensor_size_t k = 0; k < w; ++k)
                {
                    v.push_back(static_cast<double>(((s >> k) + static_cast<int>(c)) & 1));
                }
            }
            else
            {
                for (tensor_size_t k = 0; k < w; ++k)
                {
                    // float32-representable generic values so that f32 storage is exact
                    v.push_back(static_cast<double>(static_cast<float>(
                        vt::generic(static_cast<uint64_t>(s) * 7 + static_cast<uint64_t>(k), c) * (c == 0 ? 3.0 : 1.0))));
                }
            }
            col.values[static_cast<size_t>(s)] = v;
        }
    }
    auto src = std::make_unique<vt::table_datasource_t>(o.N, std::move(cols), ntarget);
    src->load();
    return src;
}

std::vector<std::string> losses_for(const int target, const bool thorough)
{
    if (target == 0)
    {
        return thorough ? std::vector<std::string>{"mse", "mae", "cauchy", "pinball"} : std::vector<std::string>{"mse", "mae", "pinball"};
    }
    if (target == 1)
    {
        return thorough ? std::vector<std::string>{"s-classnll", "s-logistic", "s-hinge", "s-squared-hinge", "s-savage", "s-tangent", "s-exponential"}
                        : std::vector<std::string>{"s-classnll", "s-hinge", "s-logistic"};
    }
    return thorough ? std::vector<std::string>{"m-logistic", "m-hinge", "m-squared-hinge", "m-savage", "m-tangent", "m-exponential"}
                    : std::vector<std::string>{"m-logistic", "m-hinge"};
}

bool close(const double got, const double ref, const double scale)
{
    return std::isfinite(got) == std::isfinite(ref) && (!std::isfinite(ref) || std::fabs(got - ref) <= 1e-9 * (1.0 + scale));
}

struct sample_eval_t
{
    double     value = 0;
    tensor1d_t grad; ///< d loss / d output (flattened)
};

sample_eval_t eval_sample(const loss_t& loss, const tensor4d_t& targets, const tensor_size_t i, const tensor1d_t& output)
{
    const auto tdims = make_dims(1, targets.size<1>(), targets.size<2>(), targets.size<3>());
    tensor4d_t t(tdims), o(tdims), g(tdims);
    t.vector() = targets.vector(i);
    o.vector() = output.vector();
    tensor1d_t v(1);
    loss.value(t, o, v);
    loss.vgrad(t, o, g);
    sample_eval_t e;
    e.value = v(0);
    e.grad  = tensor1d_t(output.size());
    e.grad.vector() = g.vector();
    return e;
}

vector_t make_x(const tensor_size_t size, const int kind)
{
    vector_t x(size);
    for (tensor_size_t i = 0; i < size; ++i)
    {
        x(i) = kind == 0 ? 0.0 : kind == 1 ? 1.0 : (0.25 * static_cast<double>(i % 7) - 0.6) * ((i % 2) ? -1.0 : 1.0);
    }
    return x;
}
} // namespace

int main(int argc, char** argv)
{
    const auto args  = parse_args(argc, argv);
    const auto stage = args.stage.empty() ? "linear" : args.stage;
    report_t   r("c09/" + stage, args);
    const bool T     = args.thorough();
    const bool small = args.get("small", "0") == "1";

    const std::vector<int> Ns(T ? std::begin(NS_THOROUGH) : std::begin(NS_QUICK), T ? std::end(NS_THOROUGH) : std::end(NS_QUICK));
    const std::vector<int> threads(T ? std::begin(THREADS_T) : std::begin(THREADS_Q), T ? std::end(THREADS_T) : std::end(THREADS_Q));

    lattice_t lat;
    lat.axis("schema", 3, jstr("2 scalars | scalar+sclass(3)+mclass(2) | scalar+struct f32 2x1x2"));
    lat.axis("samples", Ns.size(), jarr_num(Ns));
    lat.axis("missing_mask", 4, jstr("none | one cell | whole column | alternating"));
    lat.axis("target", 3, jstr("scalar | sclass(3) | mclass(2)"));
    lat.axis("threads", threads.size(), jarr_num(threads));
    lat.describe(r);

    const std::vector<std::pair<double, double>> regs = {{0, 0}, {1, 0}, {0, 1e6}, {1, 1}};
    const scaling_type scalings[] = {scaling_type::none, scaling_type::mean, scaling_type::minmax, scaling_type::standard};
    r.axis("l1_l2", jstr("(0,0),(1,0),(0,1e6),(1,1)"));
    r.axis("scaling", jstr("none, mean, minmax, standard"));
    r.axis("batch", jstr("1,2,3,N,N+1,10000"));
    r.axis("cached", jstr("off | on | on, cached while another scaling was selected (linear stage)"));
    r.axis("x", jstr("zeros, ones, signed ramp"));

    for_each_case(lat, r, stage, [&](const uint64_t index, const std::vector<uint64_t>& d) {
        outer_t o;
        o.schema  = static_cast<int>(d[0]);
        o.N       = Ns[d[1]];
        o.mask    = static_cast<int>(d[2]);
        o.target  = static_cast<int>(d[3]);
        o.threads = threads[d[4]];
        if (small && !(o.N == Ns.back() && o.threads > 1 && (o.mask == 0 || o.mask == 3)))
        {
            return; // race-detector variant: a thin sub-lattice with several threads and several chunks
        }
        std::fprintf(stderr, "CASE %s:%llu\n", stage.c_str(), static_cast<unsigned long long>(index));
        std::fflush(stderr);
        const auto source  = make_source(o);
        auto       dataset = dataset_t{*source, static_cast<size_t>(o.threads)};
        vt::add_identity_generators(dataset);
        const auto one     = stage + ":" + std::to_string(index);
        const auto samples = arange(0, o.N);
        const auto desc    = [&](const std::string& extra)
        {
            return jobj({{"schema", jint(o.schema)}, {"N", jint(o.N)}, {"mask", jint(o.mask)}, {"target", jint(o.target)},
                         {"threads", jint(o.threads)}, {"inner", jstr(extra)}});
        };
        if (index % 37 == 0)
        {
            r.sample(desc("all inner configurations"));
        }
        const std::vector<tensor_size_t> batches = small ? std::vector<tensor_size_t>{1, 2} : std::vector<tensor_size_t>{1, 2, 3, o.N, o.N + 1, 10000};

        if (stage == "linear")
        {
            for (const auto& lid : losses_for(o.target, T))
            {
                const auto loss = loss_t::all().get(lid);
                for (const auto scaling : scalings)
                {
                    for (const auto batch : batches)
                    {
                        for (int cached = 0; cached < 3; ++cached)
                        {
                            auto iterator = flatten_iterator_t{dataset, samples};
                            iterator.batch(batch);
                            if (cached == 2)
                            {
                                // the values were cached while another scaling was selected: the objective is still the one of
                                // the scaling selected when it is evaluated
                                iterator.scaling(scaling == scaling_type::none ? scaling_type::standard : scaling_type::none);
                                iterator.cache_flatten(1 << 20);
                                iterator.cache_targets(1 << 20);
                            }
                            iterator.scaling(scaling);
                            if (cached == 1)
                            {
                                iterator.cache_flatten(1 << 20);
                                iterator.cache_targets(1 << 20);
                            }
                            // reference data: whole-list views, scaled with the iterator's statistics
                            tensor2d_t xbuf;
                            tensor4d_t ybuf;
                            tensor2d_t X = dataset.flatten(samples, xbuf);
                            tensor4d_t Y = dataset.targets(samples, ybuf);
                            iterator.flatten_stats().scale(scaling, X.tensor());
                            if (dataset.target().valid())
                            {
                                iterator.targets_stats().scale(scaling, Y.tensor());
                            }
                            const auto isize = X.size<1>();
                            const auto tsize = Y.size() / std::max<tensor_size_t>(1, Y.size<0>());
                            for (const auto& [l1, l2] : regs)
                            {
                                const auto function = linear::function_t{iterator, *loss, l1, l2};
                                for (int xk = 0; xk < 3; ++xk)
                                {
                                    const auto x = make_x(function.size(), xk);
                                    vector_t   gx(function.size());
                                    const auto fx  = function.vgrad(x, gx);
                                    const auto fx0 = function.vgrad(x);
                                    // naive definition
                                    const auto W = map_tensor(x.data(), tsize, isize);
                                    const auto b = map_tensor(x.data() + tsize * isize, tsize);
                                    long double sum = 0;
                                    Eigen::MatrixXd gW = Eigen::MatrixXd::Zero(tsize, isize);
                                    Eigen::VectorXd gb = Eigen::VectorXd::Zero(tsize);
                                    for (tensor_size_t i = 0; i < o.N; ++i)
                                    {
                                        tensor1d_t out(tsize);
                                        out.vector() = W.matrix() * X.vector(i) + b.vector();
                                        const auto e = eval_sample(*loss, Y, i, out);
                                        sum += e.value;
                                        gW += e.grad.vector() * X.vector(i).transpose();
                                        gb += e.grad.vector();
                                    }
                                    const auto n   = static_cast<double>(o.N);
                                    double     ref = static_cast<double>(sum) / n;
                                    gW /= n;
                                    gb /= n;
                                    const auto wsize = static_cast<double>(W.size());
                                    ref += l1 * W.array().abs().sum() / wsize + 0.5 * l2 * W.array().square().sum() / wsize;
                                    gW.array() += l1 * W.matrix().array().sign() / wsize + l2 * W.matrix().array() / wsize;
                                    r.evaluations += 1;
                                    const auto chunks = (o.N + batch - 1) / batch;
                                    if (o.threads > 1 && chunks > 1)
                                    {
                                        ++r.nontrivial;
                                    }
                                    r.outcome(o.threads == 1 ? "single-thread" : chunks <= 1 ? "one-chunk" : chunks > o.threads ? "chunks>threads" : "chunks<=threads");
                                    const auto inner = lid + " scaling=" + std::to_string(static_cast<int>(scaling)) + " batch=" +
                                                       std::to_string(batch) + " cached=" + std::to_string(cached) + " l1=" +
                                                       std::to_string(l1) + " l2=" + std::to_string(l2) + " x=" + std::to_string(xk);
                                    if (!close(fx, ref, std::fabs(ref)))
                                    {
                                        r.violation("linear:value", one, jobj({{"case", desc(inner)}, {"got", jnum(fx)}, {"expected", jnum(ref)}}));
                                    }
                                    else if (!close(fx0, fx, std::fabs(fx)))
                                    {
                                        r.violation("linear:value-only-differs", one, jobj({{"case", desc(inner)}, {"got", jnum(fx0)}, {"expected", jnum(fx)}}));
                                    }
                                    else
                                    {
                                        const auto gWg   = map_tensor(gx.data(), tsize, isize);
                                        const auto gbg   = map_tensor(gx.data() + tsize * isize, tsize);
                                        const auto scale = std::max(gW.array().abs().maxCoeff(), gb.array().abs().maxCoeff());
                                        const auto err   = std::max((gWg.matrix() - gW).array().abs().maxCoeff(),
                                                                    (gbg.vector() - gb).array().abs().maxCoeff());
                                        if (!(err <= 1e-9 * (1.0 + scale)))
                                        {
                                            r.violation("linear:gradient", one, jobj({{"case", desc(inner)}, {"max_abs_error", jnum(err)}, {"scale", jnum(scale)}}));
                                        }
                                    }
                                }
                            }
                        }
                    }
                }
            }
        }
        else if (stage == "gboost")
        {
            const auto tdims = dataset.target_dims();
            const auto tsize = ::nano::size(tdims);
            // two sample lists: all, every other (at least one)
            std::vector<indices_t> lists;
            lists.push_back(samples);
            if (o.N > 2)
            {
                indices_t half((o.N + 1) / 2);
                for (tensor_size_t i = 0; i < half.size(); ++i)
                {
                    half(i) = 2 * i;
                }
                lists.push_back(half);
            }
            tensor4d_t ybuf;
            tensor4d_t Yall = dataset.targets(samples, ybuf);
            for (const auto& lid : losses_for(o.target, T))
            {
                const auto loss = loss_t::all().get(lid);
                for (const auto& list : lists)
                {
                    const auto n = static_cast<double>(list.size());
                    for (const auto batch : batches)
                    {
                        auto iterator = targets_iterator_t{dataset, list};
                        iterator.batch(batch);
                        iterator.scaling(scaling_type::none);
                        const auto chunks = (list.size() + batch - 1) / batch;
                        const auto note   = [&]()
                        {
                            r.evaluations += 1;
                            if (o.threads > 1 && chunks > 1)
                            {
                                ++r.nontrivial;
                            }
                            r.outcome(o.threads == 1 ? "single-thread" : chunks <= 1 ? "one-chunk" : "multi-chunk");
                        };
                        const auto inner0 = lid + " list=" + std::to_string(list.size()) + " batch=" + std::to_string(batch);
                        // bias objective
                        {
                            const auto function = gboost::bias_function_t{iterator, *loss};
                            for (int xk = 0; xk < 3; ++xk)
                            {
                                const auto x = make_x(function.size(), xk);
                                vector_t   gx(function.size());
                                const auto fx  = function.vgrad(x, gx);
                                const auto fx0 = function.vgrad(x);
                                long double sum = 0;
                                Eigen::VectorXd g = Eigen::VectorXd::Zero(tsize);
                                for (tensor_size_t k = 0; k < list.size(); ++k)
                                {
                                    tensor1d_t out(tsize);
                                    out.vector() = x.vector();
                                    const auto e = eval_sample(*loss, Yall, list(k), out);
                                    sum += e.value;
                                    g += e.grad.vector();
                                }
                                const double ref = static_cast<double>(sum) / n;
                                g /= n;
                                note();
                                const auto err = (gx.vector() - g).array().abs().maxCoeff();
                                if (!close(fx, ref, std::fabs(ref)) || !close(fx0, ref, std::fabs(ref)))
                                {
                                    r.violation("gboost-bias:value", one, jobj({{"case", desc(inner0 + " x=" + std::to_string(xk))}, {"got", jnum(fx)}, {"value_only", jnum(fx0)}, {"expected", jnum(ref)}}));
                                }
                                else if (!(err <= 1e-9 * (1.0 + g.array().abs().maxCoeff())))
                                {
                                    r.violation("gboost-bias:gradient", one, jobj({{"case", desc(inner0 + " x=" + std::to_string(xk))}, {"max_abs_error", jnum(err)}}));
                                }
                            }
                        }
                        // scale objective + gradients objective
                        tensor4d_t soutputs(cat_dims(o.N, tdims)), woutputs(cat_dims(o.N, tdims));
                        for (tensor_size_t i = 0; i < soutputs.size(); ++i)
                        {
                            soutputs(i) = vt::generic(static_cast<uint64_t>(i), 11);
                        }
                        for (int wk = 0; wk < 2; ++wk)
                        {
                            for (tensor_size_t i = 0; i < woutputs.size(); ++i)
                            {
                                woutputs(i) = wk == 0 ? 0.0 : 0.5 * static_cast<double>(i % 5) - 1.0;
                            }
                            for (int ck = 0; ck < 3; ++ck)
                            {
                                // 0: all in one group, 1: two groups, 2: two groups with unassigned samples
                                const tensor_size_t groups = ck == 0 ? 1 : 2;
                                cluster_t           cluster(o.N, groups);
                                for (tensor_size_t i = 0; i < o.N; ++i)
                                {
                                    if (ck == 2 && i % 3 == 1)
                                    {
                                        continue; // stays unassigned (-1)
                                    }
                                    cluster.assign(i, ck == 0 ? 0 : i % 2);
                                }
                                const auto function = gboost::scale_function_t{iterator, *loss, cluster, soutputs, woutputs};
                                for (int xk = 0; xk < 3; ++xk)
                                {
                                    const auto x = make_x(function.size(), xk);
                                    vector_t   gx(function.size());
                                    const auto fx  = function.vgrad(x, gx);
                                    const auto fx0 = function.vgrad(x);
                                    long double sum = 0;
                                    Eigen::VectorXd g = Eigen::VectorXd::Zero(groups);
                                    for (tensor_size_t k = 0; k < list.size(); ++k)
                                    {
                                        const auto s     = list(k);
                                        const auto group = cluster.group(s);
                                        tensor1d_t out(tsize);
                                        out.vector() = soutputs.vector(s);
                                        if (group >= 0)
                                        {
                                            out.vector() += x(group) * woutputs.vector(s);
                                        }
                                        const auto e = eval_sample(*loss, Yall, s, out);
                                        sum += e.value;
                                        if (group >= 0)
                                        {
                                            g(group) += e.grad.vector().dot(woutputs.vector(s));
                                        }
                                    }
                                    const double ref = static_cast<double>(sum) / n;
                                    g /= n;
                                    note();
                                    const auto inner = inner0 + " w=" + std::to_string(wk) + " cluster=" + std::to_string(ck) + " x=" + std::to_string(xk);
                                    const auto err   = (gx.vector() - g).array().abs().maxCoeff();
                                    if (!close(fx, ref, std::fabs(ref)) || !close(fx0, ref, std::fabs(ref)))
                                    {
                                        r.violation("gboost-scale:value", one, jobj({{"case", desc(inner)}, {"got", jnum(fx)}, {"value_only", jnum(fx0)}, {"expected", jnum(ref)}}));
                                    }
                                    else if (!(err <= 1e-9 * (1.0 + g.array().abs().maxCoeff())))
                                    {
                                        r.violation("gboost-scale:gradient", one, jobj({{"case", desc(inner)}, {"max_abs_error", jnum(err)}}));
                                    }
                                }
                            }
                        }
                        // per-sample gradients (defined on the iterator's sample list)
                        {
                            const auto function = gboost::grads_function_t{iterator, *loss};
                            tensor4d_t outputs(cat_dims(list.size(), tdims));
                            for (tensor_size_t i = 0; i < outputs.size(); ++i)
                            {
                                outputs(i) = vt::generic(static_cast<uint64_t>(i), 5) * 2.0;
                            }
                            const auto& grads = function.gradients(outputs);
                            vector_t    gx(function.size());
                            const auto  x  = map_tensor(outputs.data(), outputs.size());
                            const auto  fx = function.vgrad(x, gx);
                            long double sum = 0;
                            double      err = 0, errg = 0;
                            for (tensor_size_t k = 0; k < list.size(); ++k)
                            {
                                tensor1d_t out(tsize);
                                out.vector() = outputs.vector(k);
                                const auto e = eval_sample(*loss, Yall, list(k), out);
                                sum += e.value;
                                err  = std::max(err, (grads.vector(k) - e.grad.vector()).array().abs().maxCoeff());
                                errg = std::max(errg, (gx.vector().segment(k * tsize, tsize) - e.grad.vector() / n).array().abs().maxCoeff());
                            }
                            const double ref = static_cast<double>(sum) / n;
                            note();
                            if (!close(fx, ref, std::fabs(ref)))
                            {
                                r.violation("gboost-grads:value", one, jobj({{"case", desc(inner0)}, {"got", jnum(fx)}, {"expected", jnum(ref)}}));
                            }
                            else if (!(err <= 1e-9) || !(errg <= 1e-9))
                            {
                                r.violation("gboost-grads:gradient", one, jobj({{"case", desc(inner0)}, {"max_abs_error", jnum(std::max(err, errg))}}));
                            }
                        }
                    }
                }
            }
        }
    });
    r.assume("scaled inputs/targets of the reference are produced by the iterator's own statistics (scaling is property C14) "
             "applied to whole-list flatten/targets views (the views are property C08)");
    return r.finish();
}
