// C02 — every solver returns an honest, self-consistent result within bounded budget.
//
// E3 (bounded-exhaustive lattice) + E2 (exhaustive fault sequences with a deviation bound).
//
// stages
//   honest : all registered solver ids + the 3 constrained solvers x function alphabet x x0 x epsilon x max_evals,
//            thinned by the rule written in triples()/on_diagonal() and recorded in the evidence (axis "thinning").
//   params : (thorough) every solver-specific parameter at both ends of its domain, one at a time.
//   faults : mc::explore over "the k-th distinct queried point (k<=K, never x0) answers NaN / +inf / 1e300",
//            remembered per point so that the wrapped object is still a function; only the honesty clauses apply.
//
// The user function is always given to the solver through counting_function_t (an independent evaluation counter
// that delegates to a private clone); every reported value is recomputed through another fresh clone.
//
// case encodings: "run:<index>" (honest), "par:<index>" (params), "F:<config index>:<K>|c0,c1,..." (faults)
// debugging a replay: C02_TRACE=1 echoes the solver's log, the case and the observation to stderr.
#include "detrand.h"
#include "mc.h"
#include "verif.h"

#include <nano/function.h>
#include <nano/solver.h>
#include <nano/solver/augmented.h>
#include <nano/solver/penalty.h>

#include <algorithm>
#include <array>
#include <csetjmp>
#include <fcntl.h>
#include <fnmatch.h>
#include <csignal>
#include <ctime>
#include <memory>
#include <sys/resource.h>
#include <sys/time.h>
#include <sys/wait.h>
#include <unistd.h>
#include <unordered_map>

using namespace nano;
using namespace verif;

namespace
{
constexpr double NaN = std::numeric_limits<double>::quiet_NaN();
constexpr double INF = std::numeric_limits<double>::infinity();

// ---------------------------------------------------------------------------------------------
// watchdog: CPU-time timer (robust against a loaded machine) + a long wall-clock alarm as a backstop.
// first expiry: a flag that makes the next function evaluation throw (clean unwinding through the solver);
// second expiry (the solver spins without evaluating): siglongjmp out of the case.
volatile sig_atomic_t g_timeout   = 0;
volatile sig_atomic_t g_jmp_armed = 0;
sigjmp_buf            g_jmp;
char                  g_case_tag[160] = "";

void arm_timer(const double cpu_s, const unsigned wall_s)
{
    itimerval it{};
    it.it_value.tv_sec  = static_cast<time_t>(cpu_s);
    it.it_value.tv_usec = static_cast<suseconds_t>((cpu_s - std::floor(cpu_s)) * 1e6);
    setitimer(ITIMER_VIRTUAL, &it, nullptr);
    alarm(wall_s);
}

void on_timer(int)
{
    if (g_timeout == 0)
    {
        g_timeout = 1;
        arm_timer(5.0, 120); // grace: the next evaluation throws; if there is none we jump
    }
    else if (g_jmp_armed != 0)
    {
        g_jmp_armed = 0;
        siglongjmp(g_jmp, 1);
    }
}

void on_crash(const int sig)
{
    // attribute a crash inside the library to the running case (bin/check reads the last "CASE " line)
    const char* p = "CASE ";
    (void)!write(2, p, 5);
    (void)!write(2, g_case_tag, std::strlen(g_case_tag));
    (void)!write(2, "\n", 1);
    signal(sig, SIG_DFL);
    raise(sig);
}

struct timeout_t
{
};

double cpu_now()
{
    timespec ts{};
    clock_gettime(CLOCK_PROCESS_CPUTIME_ID, &ts);
    return static_cast<double>(ts.tv_sec) + 1e-9 * static_cast<double>(ts.tv_nsec);
}

// ---------------------------------------------------------------------------------------------
// harness functions (own function_t subclasses; value-only and value+gradient calls share one expression)
class hquad_t final : public function_t
{
public:
    hquad_t(string_t id, matrix_t A, vector_t c, const scalar_t mineig)
        : function_t(std::move(id), c.size())
        , m_A(std::move(A))
        , m_c(std::move(c))
    {
        convex(convexity::yes);
        smooth(smoothness::yes);
        strong_convexity(mineig);
    }
    rfunction_t clone() const override { return std::make_unique<hquad_t>(*this); }
    scalar_t    do_vgrad(vector_cmap_t x, vector_map_t gx) const override
    {
        const auto n = size();
        scalar_t   f = 0.0;
        for (tensor_size_t i = 0; i < n; ++i)
        {
            scalar_t gi = 0.0;
            for (tensor_size_t j = 0; j < n; ++j)
            {
                gi += m_A(i, j) * (x(j) - m_c(j));
            }
            f += 0.5 * (x(i) - m_c(i)) * gi;
            if (gx.size() == n)
            {
                gx(i) = gi;
            }
        }
        return f;
    }

private:
    matrix_t m_A;
    vector_t m_c;
};

class hpwl_t final : public function_t
{
public:
    hpwl_t(string_t id, matrix_t a, vector_t b)
        : function_t(std::move(id), a.cols())
        , m_a(std::move(a))
        , m_b(std::move(b))
    {
        convex(convexity::yes);
        smooth(smoothness::no);
        strong_convexity(0.0);
    }
    rfunction_t clone() const override { return std::make_unique<hpwl_t>(*this); }
    scalar_t    do_vgrad(vector_cmap_t x, vector_map_t gx) const override
    {
        const auto    n    = size();
        tensor_size_t best = 0;
        scalar_t      fbest = -INF;
        for (tensor_size_t j = 0; j < m_a.rows(); ++j)
        {
            scalar_t v = m_b(j);
            for (tensor_size_t i = 0; i < n; ++i)
            {
                v += m_a(j, i) * x(i);
            }
            if (j == 0 || v > fbest)
            {
                fbest = v, best = j;
            }
        }
        if (gx.size() == n)
        {
            for (tensor_size_t i = 0; i < n; ++i)
            {
                gx(i) = m_a(best, i);
            }
        }
        return fbest;
    }

private:
    matrix_t m_a;
    vector_t m_b;
};

struct lcg_t
{
    uint64_t s;
    double   next() // in [-1, 1)
    {
        s = s * 6364136223846793005ULL + 1442695040888963407ULL;
        return static_cast<double>((s >> 11) & ((1ULL << 53) - 1)) / static_cast<double>(1ULL << 52) - 1.0;
    }
};

rfunctions_t make_harness_functions()
{
    rfunctions_t out;
    {
        matrix_t A(tensor_size_t{1}, tensor_size_t{1});
        A(0, 0) = 2.0;
        vector_t c(1);
        c(0) = 0.5;
        out.push_back(std::make_unique<hquad_t>("hq-unit", A, c, 2.0));
    }
    {
        matrix_t A(2, 2);
        A.full(0.0);
        A(0, 0) = 1.0, A(1, 1) = 1e4;
        vector_t c(2);
        c(0) = 1.0, c(1) = -1.0;
        out.push_back(std::make_unique<hquad_t>("hq-illcond", A, c, 1.0));
    }
    {
        matrix_t A(4, 4);
        A.full(0.0);
        vector_t c(4);
        for (tensor_size_t i = 0; i < 4; ++i)
        {
            A(i, i) = 2.5;
            if (i > 0)
            {
                A(i, i - 1) = -1.0, A(i - 1, i) = -1.0;
            }
            c(i) = 0.25 * static_cast<double>(i + 1);
        }
        out.push_back(std::make_unique<hquad_t>("hq-tridiag", A, c, 0.5));
    }
    {
        matrix_t A(8, 8);
        A.full(0.0);
        vector_t c(8);
        for (tensor_size_t i = 0; i < 8; ++i)
        {
            A(i, i) = std::pow(10.0, 6.0 * static_cast<double>(i) / 7.0);
            c(i)    = (i % 2 == 0) ? 3.0 : -3.0;
        }
        out.push_back(std::make_unique<hquad_t>("hq-scaled", A, c, 1.0));
    }
    {
        matrix_t a(3, 1);
        vector_t b(3);
        a(0, 0) = -1.0, b(0) = -1.0;
        a(1, 0) = 2.0, b(1) = -2.0;
        a(2, 0) = 0.5, b(2) = 0.0;
        out.push_back(std::make_unique<hpwl_t>("hpwl-3", a, b));
    }
    {
        matrix_t     a(5, 2);
        vector_t     b(5);
        const double av[5][2] = {{1, 0}, {-1, 0}, {0, 1}, {0, -1}, {0.5, 0.5}};
        const double bv[5]    = {-1.0, -0.5, 0.25, -2.0, 0.1};
        for (int j = 0; j < 5; ++j)
        {
            a(j, 0) = av[j][0], a(j, 1) = av[j][1], b(j) = bv[j];
        }
        out.push_back(std::make_unique<hpwl_t>("hpwl-5", a, b));
    }
    {
        // +-e_i (bounded below) plus four planes with generated slopes
        matrix_t a(12, 4);
        vector_t b(12);
        a.full(0.0);
        lcg_t g{0xC02C02C02ULL};
        for (int i = 0; i < 4; ++i)
        {
            a(2 * i, i) = 1.0, a(2 * i + 1, i) = -1.0;
            b(2 * i) = g.next(), b(2 * i + 1) = g.next();
        }
        for (int j = 8; j < 12; ++j)
        {
            for (int i = 0; i < 4; ++i)
            {
                a(j, i) = 2.0 * g.next();
            }
            b(j) = g.next();
        }
        out.push_back(std::make_unique<hpwl_t>("hpwl-12", a, b));
    }
    return out;
}

// ---------------------------------------------------------------------------------------------
// what the harness observes independently of the library's own counters
struct segment_t
{
    uint64_t evals  = 0; ///< value + gradient evaluations inside this outer iteration
    int      inners = 0; ///< inner solves seen in it (normally 1)
};

struct probe_t
{
    uint64_t calls  = 0; ///< evaluations of the wrapped function (any kind)
    uint64_t gcalls = 0; ///< ... of them with a gradient
    // fault model
    bool           faults = false;
    mc::chooser_t* ch     = nullptr;
    int            max_k  = 60;
    int            distinct = 0;
    int            poisoned_answers = 0;
    std::unordered_map<std::string, int> kinds; ///< point -> 0 honest, 1 NaN, 2 +inf, 3 1e300
    // inner solves of the constrained solvers (delimited by the solver's own log lines)
    std::vector<segment_t> segments;
    uint64_t               seg_start = 0;
    int                    seg_inners = 0;
    long                   seg_prev_total = -1;

    uint64_t evals() const { return calls + gcalls; }

    static std::string key(const scalar_t* x, const tensor_size_t n)
    {
        std::string k(static_cast<size_t>(n) * sizeof(scalar_t), '\0');
        for (tensor_size_t i = 0; i < n; ++i)
        {
            const scalar_t v = x[i] + 0.0; // -0.0 and +0.0 are the same point
            std::memcpy(&k[static_cast<size_t>(i) * sizeof(scalar_t)], &v, sizeof(scalar_t));
        }
        return k;
    }
    /// kind of the point; a new point may be poisoned (one choice point per new point with 1 <= index <= max_k)
    int kind_at(const scalar_t* x, const tensor_size_t n, const bool may_create)
    {
        auto       k  = key(x, n);
        const auto it = kinds.find(k);
        if (it != kinds.end())
        {
            return it->second;
        }
        if (!may_create)
        {
            return 0;
        }
        const int index = distinct++;
        int       kind  = 0;
        if (index >= 1 && index <= max_k && ch != nullptr)
        {
            kind = ch->choose(4);
        }
        kinds.emplace(std::move(k), kind);
        return kind;
    }
    void close_segment()
    {
        segments.push_back({evals() - seg_start, seg_inners});
        seg_start      = evals();
        seg_inners     = 0;
        seg_prev_total = -1;
    }
};

scalar_t apply_poison(const int kind, const scalar_t fx, vector_map_t gx)
{
    switch (kind)
    {
    case 1:
        if (gx.size() > 0)
        {
            gx.full(NaN);
        }
        return NaN;
    case 2: return INF;
    case 3: return 1e300;
    default: return fx;
    }
}

class counting_function_t final : public function_t
{
public:
    counting_function_t(const function_t& f, probe_t& probe)
        : function_t(f.type_id(), f.size())
        , m_inner(f.clone())
        , m_probe(&probe)
    {
        convex(f.convex() ? convexity::yes : convexity::no);
        smooth(f.smooth() ? smoothness::yes : smoothness::no);
        strong_convexity(f.strong_convexity());
    }
    counting_function_t(const counting_function_t& o)
        : function_t(o)
        , m_inner(o.m_inner->clone())
        , m_probe(o.m_probe)
    {
    }
    rfunction_t clone() const override { return std::make_unique<counting_function_t>(*this); }
    scalar_t    do_vgrad(vector_cmap_t x, vector_map_t gx) const override
    {
        if (g_timeout != 0)
        {
            throw timeout_t{};
        }
        m_probe->calls += 1;
        m_probe->gcalls += (gx.size() == size()) ? 1 : 0;
        auto fx = m_inner->vgrad(x, gx);
        if (m_probe->faults)
        {
            const int kind = m_probe->kind_at(x.data(), x.size(), true);
            if (kind != 0)
            {
                m_probe->poisoned_answers += 1;
                fx = apply_poison(kind, fx, gx);
            }
        }
        return fx;
    }

private:
    rfunction_t m_inner;
    probe_t*    m_probe;
};

/// stream that sees the solver's log lines: "[solver-<id>]: calls=a|b,..." (one per call of solver_t::done)
class tap_buf_t final : public std::streambuf
{
public:
    tap_buf_t(probe_t& probe, std::string outer_id)
        : m_probe(probe)
        , m_outer("[solver-" + std::move(outer_id) + "]")
    {
    }

protected:
    int_type overflow(int_type c) override
    {
        if (c != traits_type::eof())
        {
            put(static_cast<char>(c));
        }
        return c;
    }
    std::streamsize xsputn(const char* s, std::streamsize n) override
    {
        for (std::streamsize i = 0; i < n; ++i)
        {
            put(s[i]);
        }
        return n;
    }

private:
    void put(const char c)
    {
        if (c != '\n')
        {
            if (m_line.size() < 4096)
            {
                m_line += c;
            }
            return;
        }
        if (m_echo)
        {
            std::fprintf(stderr, "%s\n", m_line.c_str());
        }
        const auto p = m_line.find("[solver-");
        if (p != std::string::npos)
        {
            if (m_line.compare(p, m_outer.size(), m_outer) == 0)
            {
                m_probe.close_segment();
            }
            else
            {
                long       a = 0, b = 0;
                const auto q = m_line.find("calls=", p);
                if (q != std::string::npos && std::sscanf(m_line.c_str() + q, "calls=%ld|%ld", &a, &b) == 2)
                {
                    const long total = a + b;
                    if (m_probe.seg_inners == 0 || total < m_probe.seg_prev_total)
                    {
                        m_probe.seg_inners += 1;
                    }
                    m_probe.seg_prev_total = total;
                }
            }
        }
        m_line.clear();
    }
    probe_t&    m_probe;
    std::string m_outer;
    std::string m_line;
    bool        m_echo = std::getenv("C02_TRACE") != nullptr; ///< debugging aid for replays: echo the solver's log
};

// ---------------------------------------------------------------------------------------------
// alphabets
struct solver_info_t
{
    std::string id;
    int         constrained = 0; ///< 0 factory id, 1 linear-penalty, 2 quadratic-penalty, 3 augmented-lagrangian
    solver_type type        = solver_type::line_search;
    std::string family;
};

rsolver_t make_solver(const solver_info_t& s)
{
    switch (s.constrained)
    {
    case 1: return std::make_unique<solver_linear_penalty_t>();
    case 2: return std::make_unique<solver_quadratic_penalty_t>();
    case 3: return std::make_unique<solver_augmented_lagrangian_t>();
    default: return solver_t::all().get(s.id);
    }
}

std::string family_of(const std::string& id, const solver_type type)
{
    if (type == solver_type::constrained)
    {
        return "constrained";
    }
    if (type == solver_type::line_search)
    {
        return "lsearch";
    }
    if (id.rfind("gs", 0) == 0 || id.rfind("ags", 0) == 0)
    {
        return "gsample";
    }
    if (id == "rqb" || id.rfind("fpba", 0) == 0)
    {
        return "bundle";
    }
    if (id == "pgm" || id == "dgm" || id == "fgm" || id == "asga2" || id == "asga4")
    {
        return "universal";
    }
    return "subgrad";
}

std::vector<solver_info_t> make_solvers()
{
    std::vector<solver_info_t> out;
    auto                       ids = solver_t::all().ids();
    std::sort(ids.begin(), ids.end());
    for (const auto& id : ids)
    {
        const auto s = solver_t::all().get(id);
        out.push_back({id, 0, s->type(), family_of(id, s->type())});
    }
    out.push_back({"linear-penalty", 1, solver_type::constrained, "constrained"});
    out.push_back({"quadratic-penalty", 2, solver_type::constrained, "constrained"});
    out.push_back({"augmented-lagrangian", 3, solver_type::constrained, "constrained"});
    return out;
}

struct function_info_t
{
    rfunction_t f;
    std::string name;
    bool        harness = false;
};

std::vector<function_info_t> make_functions(const bool thorough)
{
    std::vector<function_info_t> out;
    std::vector<tensor_size_t>   dims = {1, 2, 4, 8};
    if (thorough)
    {
        dims.push_back(32);
    }
    auto ids = function_t::all().ids();
    std::sort(ids.begin(), ids.end());
    // simplest first: by dimension, then by id
    for (const auto d : dims)
    {
        for (const auto& id : ids)
        {
            detrand_reset(0xC02);
            auto f = function_t::all().get(id)->make(d, 10);
            if (!f)
            {
                continue;
            }
            auto       name = f->name();
            const auto dup  = std::any_of(out.begin(), out.end(), [&](const auto& o) { return o.name == name; });
            if (dup || f->size() != d)
            {
                continue; // e.g. the linear-model prototypes have at least 2 dimensions: their "1D" instance is the 2D one
            }
            out.push_back({std::move(f), std::move(name), false});
        }
        for (auto& h : make_harness_functions())
        {
            if (h->size() == d)
            {
                auto name = h->name();
                out.push_back({std::move(h), std::move(name), true});
            }
        }
    }
    return out;
}

const double        RADII[3]     = {1e-3, 1.0, 10.0};
const char* const   PATTERNS[3]  = {"ones", "alternating", "e1"};
const double        EPSILONS[2]  = {1e-4, 1e-8};
const tensor_size_t MAX_EVALS[5] = {10, 100, 1000, 5000, 300}; ///< the last one is used by stage params only

vector_t make_x0(const tensor_size_t n, const int ix0)
{
    const double r   = RADII[ix0 / 3];
    const int    pat = ix0 % 3;
    vector_t     x(n);
    for (tensor_size_t i = 0; i < n; ++i)
    {
        x(i) = pat == 0 ? r : pat == 1 ? ((i % 2 == 0) ? r : -r) : (i == 0 ? r : 0.0);
    }
    return x;
}

std::string x0_name(const int ix0)
{
    char buf[64];
    std::snprintf(buf, sizeof(buf), "%g*%s", RADII[ix0 / 3], PATTERNS[ix0 % 3]);
    return buf;
}

// one solver-specific parameter moved to one end of its domain
struct variant_t
{
    std::string name; ///< "" = defaults
    std::string what; ///< printable value
    int         kind = 0; ///< 1 double, 2 integer, 3 double pair, 4 integer pair, 5 enum
    double      d1 = 0, d2 = 0;
    int64_t     i1 = 0, i2 = 0;
    std::string e;
    bool        lsearch_setting = false; ///< the budget clause is stated for default line-search settings only
};

void apply_variant(solver_t& solver, const variant_t& v)
{
    switch (v.kind)
    {
    case 1: solver.parameter(v.name) = v.d1; break;
    case 2: solver.parameter(v.name) = v.i1; break;
    case 3: solver.parameter(v.name) = std::make_tuple(v.d1, v.d2); break;
    case 4: solver.parameter(v.name) = std::make_tuple(v.i1, v.i2); break;
    case 5: solver.parameter(v.name) = v.e; break;
    default: break;
    }
}

bool is_lt(const LEorLT& c)
{
    return std::holds_alternative<LT_t>(c);
}

/// closed end: the bound itself; open end: moved inward by 1e-6 relative (1e-30 next to 0); |value| clamped to 1e12
double end_of(const double bound, const bool open, const bool upper)
{
    if (bound > 1e12)
    {
        return 1e12;
    }
    if (bound < -1e12)
    {
        return -1e12;
    }
    if (!open)
    {
        return bound;
    }
    const double step = bound == 0.0 ? 1e-30 : 1e-6 * std::fabs(bound);
    return upper ? bound - step : bound + step;
}

std::vector<variant_t> make_variants(const solver_info_t& s)
{
    std::vector<variant_t> out;
    const auto             solver = make_solver(s);
    for (const auto& p : solver->parameters())
    {
        const auto& name = p.name();
        if (name == "solver::epsilon" || name == "solver::max_evals")
        {
            continue; // axes of their own
        }
        const bool ls = name.find("lsearch") != std::string::npos || name == "solver::tolerance";
        const auto fmt = [](const double v)
        {
            char buf[48];
            std::snprintf(buf, sizeof(buf), "%.9g", v);
            return std::string(buf);
        };
        if (const auto* fr = std::get_if<parameter_t::frange_t>(&p.storage()))
        {
            for (int up = 0; up < 2; ++up)
            {
                variant_t v;
                v.name = name, v.kind = 1, v.lsearch_setting = ls;
                v.d1   = up ? end_of(fr->m_max, is_lt(fr->m_maxcomp), true) : end_of(fr->m_min, is_lt(fr->m_mincomp), false);
                v.what = fmt(v.d1);
                out.push_back(v);
            }
        }
        else if (const auto* ir = std::get_if<parameter_t::irange_t>(&p.storage()))
        {
            for (int up = 0; up < 2; ++up)
            {
                variant_t v;
                v.name = name, v.kind = 2, v.lsearch_setting = ls;
                v.i1   = up ? ir->m_max - (is_lt(ir->m_maxcomp) ? 1 : 0) : ir->m_min + (is_lt(ir->m_mincomp) ? 1 : 0);
                v.what = std::to_string(v.i1);
                out.push_back(v);
            }
        }
        else if (const auto* fp = std::get_if<parameter_t::fprange_t>(&p.storage()))
        {
            for (int up = 0; up < 2; ++up)
            {
                variant_t v;
                v.name = name, v.kind = 3, v.lsearch_setting = ls;
                v.d1   = up ? fp->m_value1 : end_of(fp->m_min, is_lt(fp->m_mincomp), false);
                v.d2   = up ? end_of(fp->m_max, is_lt(fp->m_maxcomp), true) : fp->m_value2;
                v.what = "(" + fmt(v.d1) + "," + fmt(v.d2) + ")";
                out.push_back(v);
            }
        }
        else if (const auto* ip = std::get_if<parameter_t::iprange_t>(&p.storage()))
        {
            for (int up = 0; up < 2; ++up)
            {
                variant_t v;
                v.name = name, v.kind = 4, v.lsearch_setting = ls;
                v.i1   = up ? ip->m_value1 : ip->m_min + (is_lt(ip->m_mincomp) ? 1 : 0);
                v.i2   = up ? ip->m_max - (is_lt(ip->m_maxcomp) ? 1 : 0) : ip->m_value2;
                v.what = "(" + std::to_string(v.i1) + "," + std::to_string(v.i2) + ")";
                out.push_back(v);
            }
        }
        else if (const auto* en = std::get_if<parameter_t::enum_t>(&p.storage()))
        {
            for (const auto& value : en->m_domain)
            {
                if (value != en->m_value)
                {
                    variant_t v;
                    v.name = name, v.kind = 5, v.e = value, v.what = value, v.lsearch_setting = ls;
                    out.push_back(v);
                }
            }
        }
    }
    return out;
}

// ---------------------------------------------------------------------------------------------
struct setup_t
{
    int       solver = 0;
    int       func   = 0;
    int       ix0    = 0;
    int       ieps   = 0;
    int       ime    = 0;
    variant_t variant;
    bool      faults = false;
    int       max_k  = 60;
};

struct obs_t
{
    tensor_size_t          n = 0;
    vector_t               x;
    scalar_t               fx = 0;
    vector_t               gx;
    int                    status = -1;
    int64_t                fcalls = 0, gcalls = 0;
    uint64_t               counted_calls = 0, counted_gcalls = 0;
    std::vector<segment_t> segments; ///< constrained solvers only
};

struct truth_t
{
    tensor_size_t n = 0;
    scalar_t      f0 = 0;     ///< f(x0)
    scalar_t      g0inf = 0;  ///< |grad f(x0)|_inf
    scalar_t      fx_value = 0, fx_vgrad = 0; ///< f(returned x) recomputed by a value-only / a value+gradient call
    vector_t      gx;         ///< gradient at the returned x (value+gradient call)
    bool          line_search = false, constrained = false, in_class = false, budget_clause = false;
    int64_t       max_evals = 0;
};

struct viol_t
{
    std::string clause;
    std::string detail;
};

bool same_bits(const scalar_t a, const scalar_t b)
{
    return std::memcmp(&a, &b, sizeof(scalar_t)) == 0 || (std::isnan(a) && std::isnan(b));
}

/// the clauses of the statement for one finished run (independent of how the observation was obtained)
std::vector<viol_t> judge(const obs_t& o, const truth_t& t)
{
    std::vector<viol_t> v;
    const bool          failed = o.status == static_cast<int>(solver_status::failed);
    if (o.x.size() != t.n || (t.line_search && o.gx.size() != t.n))
    {
        v.push_back({"dimension", jobj({{"x_size", jint(o.x.size())}, {"gx_size", jint(o.gx.size())}, {"expected", jint(t.n)}})});
        return v;
    }
    if (o.status != static_cast<int>(solver_status::converged) && o.status != static_cast<int>(solver_status::max_iters) &&
        o.status != static_cast<int>(solver_status::failed))
    {
        v.push_back({"status-not-in-{converged,max_iters,failed}", jobj({{"status", jint(o.status)}})});
    }
    // reported value == function at the reported point (same kind of call), or both non-finite when failed
    const bool fx_ok = same_bits(o.fx, t.fx_value) || same_bits(o.fx, t.fx_vgrad) ||
                       (failed && !std::isfinite(o.fx) && (!std::isfinite(t.fx_value) || !std::isfinite(t.fx_vgrad)));
    if (!fx_ok)
    {
        v.push_back({"fx-differs-from-f(x)", jobj({{"reported_fx", jnum(o.fx)}, {"f(x)_value_call", jnum(t.fx_value)},
                                                   {"f(x)_vgrad_call", jnum(t.fx_vgrad)}, {"x", jarr_num(std::vector<double>(o.x.data(), o.x.data() + o.x.size()))}})});
    }
    if (t.line_search)
    {
        bool          g_ok = true;
        tensor_size_t at   = 0;
        for (tensor_size_t i = 0; i < t.n; ++i)
        {
            const bool ok = same_bits(o.gx(i), t.gx(i)) || (failed && !std::isfinite(o.gx(i)) && !std::isfinite(t.gx(i)));
            if (!ok && g_ok)
            {
                g_ok = false, at = i;
            }
        }
        if (!g_ok)
        {
            v.push_back({"gx-differs-from-grad-f(x)", jobj({{"component", jint(at)}, {"reported", jnum(o.gx(at))}, {"recomputed", jnum(t.gx(at))}})});
        }
    }
    if (o.fcalls < 0 || static_cast<uint64_t>(o.fcalls) > o.counted_calls)
    {
        v.push_back({"reported-fcalls-exceed-performed", jobj({{"reported", jint(o.fcalls)}, {"counted", jint(o.counted_calls)}})});
    }
    if (o.gcalls < 0 || static_cast<uint64_t>(o.gcalls) > o.counted_gcalls)
    {
        v.push_back({"reported-gcalls-exceed-performed", jobj({{"reported", jint(o.gcalls)}, {"counted", jint(o.counted_gcalls)}})});
    }
    if (!failed)
    {
        bool xfinite = true;
        for (tensor_size_t i = 0; i < t.n; ++i)
        {
            xfinite = xfinite && std::isfinite(o.x(i));
        }
        if (!xfinite || !std::isfinite(o.fx))
        {
            v.push_back({std::string("non-finite-result-with-status-") + (o.status == 1 ? "converged" : "max_iters"), jobj({{"fx", jnum(o.fx)}, {"x_finite", xfinite ? "true" : "false"}, {"status", jint(o.status)}})});
        }
        else if (t.in_class && std::fabs(t.f0) < 1e8 && t.g0inf < 1e8)
        {
            // judged on the recomputed value (the smaller of the two kinds of call)
            const auto fx    = std::min(t.fx_value, t.fx_vgrad);
            const auto bound = t.f0 + 5e-4 * (1.0 + std::fabs(t.f0));
            if (!(fx <= bound))
            {
                v.push_back({"value-larger-than-start", jobj({{"f(x)", jnum(fx)}, {"f(x0)", jnum(t.f0)}, {"allowed", jnum(bound)}})});
            }
        }
    }
    if (t.budget_clause)
    {
        const auto allowance = static_cast<uint64_t>(t.max_evals + 1100 + 8 * t.n);
        if (!t.constrained)
        {
            if (o.counted_calls + o.counted_gcalls > allowance)
            {
                v.push_back({"budget-overshoot", jobj({{"value_evaluations", jint(o.counted_calls)}, {"gradient_evaluations", jint(o.counted_gcalls)},
                                                       {"max_evals", jint(t.max_evals)}, {"allowed_total", jint(allowance)}})});
            }
        }
        else
        {
            for (size_t i = 0; i < o.segments.size(); ++i)
            {
                const auto& s       = o.segments[i];
                const auto  allowed = static_cast<uint64_t>(std::max(1, s.inners)) * allowance + 4; // + the outer iteration's own evaluations
                if (s.evals > allowed)
                {
                    v.push_back({"budget-overshoot-per-inner-solve", jobj({{"outer_iteration", jint(i)}, {"evaluations", jint(s.evals)}, {"inner_solves", jint(s.inners)},
                                                                           {"max_evals", jint(t.max_evals)}, {"allowed", jint(allowed)}})});
                    break;
                }
            }
        }
    }
    return v;
}

struct world_t
{
    std::vector<solver_info_t>   solvers;
    std::vector<function_info_t> functions;
};

struct exec_t
{
    std::vector<viol_t> violations;
    int                 status = -1;
    bool                exhausted = false, moved = false, threw = false;
    int                 poisoned_answers = 0;
    bool                poisoned_result = false;
    uint64_t            evals = 0;
};

std::string describe(const world_t& w, const setup_t& su)
{
    const auto& s = w.solvers[static_cast<size_t>(su.solver)];
    const auto& f = w.functions[static_cast<size_t>(su.func)];
    return jobj({{"solver", jstr(s.id)}, {"function", jstr(f.name)}, {"x0", jstr(x0_name(su.ix0))},
                 {"epsilon", jnum(EPSILONS[su.ieps])}, {"max_evals", jint(MAX_EVALS[su.ime])},
                 {"parameter", jstr(su.variant.name.empty() ? "defaults" : su.variant.name + "=" + su.variant.what)}});
}

/// run the real solver once and judge the result (may throw timeout_t)
exec_t run_and_judge(const world_t& w, const setup_t& su, mc::chooser_t* ch)
{
    exec_t      e;
    const auto& si = w.solvers[static_cast<size_t>(su.solver)];
    const auto& fi = w.functions[static_cast<size_t>(su.func)];
    const auto  n  = fi.f->size();
    const auto  x0 = make_x0(n, su.ix0);

    auto solver = make_solver(si);
    try
    {
        solver->parameter("solver::epsilon")   = EPSILONS[su.ieps];
        solver->parameter("solver::max_evals") = MAX_EVALS[su.ime];
        apply_variant(*solver, su.variant);
    }
    catch (const std::exception& ex)
    {
        // the harness asked for a value outside the domain: a harness mistake, never a library defect
        std::fprintf(stderr, "cannot configure %s: %s\n", describe(w, su).c_str(), ex.what());
        std::exit(2);
    }

    probe_t probe;
    probe.faults = su.faults;
    probe.ch     = ch;
    probe.max_k  = su.max_k;
    counting_function_t wrapped(*fi.f, probe);
    if (su.faults)
    {
        probe.kind_at(x0.data(), n, true); // x0 is point 0 and is never poisoned
    }

    tap_buf_t    tap(probe, si.id);
    std::ostream tap_stream(&tap);
    const auto   logger = (si.constrained != 0 || std::getenv("C02_TRACE") != nullptr) ? make_stream_logger(tap_stream) : make_null_logger();

    detrand_reset(0xC02ULL + static_cast<uint64_t>(su.solver));
    solver_state_t state;
    try
    {
        state = solver->minimize(wrapped, x0, logger);
    }
    catch (const timeout_t&)
    {
        throw;
    }
    catch (const std::exception& ex)
    {
        e.threw = true;
        e.violations.push_back({"exception-instead-of-result", jobj({{"what", jstr(ex.what())}})});
        return e;
    }
    probe.close_segment();

    obs_t o;
    o.n              = n;
    o.x              = state.x();
    o.fx             = state.fx();
    o.gx             = state.gx();
    o.status         = static_cast<int>(state.status());
    o.fcalls         = state.fcalls();
    o.gcalls         = state.gcalls();
    o.counted_calls  = probe.calls;
    o.counted_gcalls = probe.gcalls;
    o.segments       = probe.segments;

    // the truth, through a fresh clone (and the remembered poison of the point, if any)
    truth_t t;
    t.n           = n;
    t.line_search = si.type == solver_type::line_search;
    t.constrained = si.type == solver_type::constrained;
    t.max_evals   = MAX_EVALS[su.ime];
    const auto fresh = fi.f->clone();
    {
        vector_t g0(n);
        t.f0    = fresh->vgrad(x0, g0);
        t.g0inf = 0.0;
        for (tensor_size_t i = 0; i < n; ++i)
        {
            t.g0inf = std::isnan(g0(i)) ? INF : std::max(t.g0inf, std::fabs(g0(i)));
        }
    }
    t.gx = vector_t(n);
    t.gx.full(0.0);
    if (o.x.size() == n)
    {
        t.fx_value = fresh->vgrad(o.x);
        t.fx_vgrad = fresh->vgrad(o.x, t.gx);
        if (su.faults)
        {
            const int kind = probe.kind_at(o.x.data(), n, false);
            if (kind != 0)
            {
                e.poisoned_result = true;
                vector_map_t none;
                t.fx_value = apply_poison(kind, t.fx_value, none);
                t.fx_vgrad = apply_poison(kind, t.fx_vgrad, t.gx);
            }
        }
    }
    const bool documented = t.line_search ? fi.f->smooth() : (si.id == "rqb" ? fi.f->convex() : true);
    t.in_class            = documented && !su.faults; // a poisoned function is outside every documented class
    t.budget_clause       = !su.faults && !su.variant.lsearch_setting;

    e.violations = judge(o, t);
    if (std::getenv("C02_TRACE") != nullptr)
    {
        std::fprintf(stderr, "TRACE status=%d fx=%.17g counted=%llu|%llu reported=%lld|%lld segments=", o.status, o.fx, static_cast<unsigned long long>(o.counted_calls),
                     static_cast<unsigned long long>(o.counted_gcalls), static_cast<long long>(o.fcalls), static_cast<long long>(o.gcalls));
        for (const auto& sg : o.segments)
        {
            std::fprintf(stderr, "%llu/%d ", static_cast<unsigned long long>(sg.evals), sg.inners);
        }
        std::fprintf(stderr, "\n");
    }
    e.status           = o.status;
    e.evals            = probe.evals();
    e.exhausted        = probe.evals() >= static_cast<uint64_t>(t.max_evals);
    e.moved            = o.x.size() == n && probe.key(o.x.data(), n) != probe.key(x0.data(), n);
    e.poisoned_answers = probe.poisoned_answers;
    return e;
}

// ---------------------------------------------------------------------------------------------
// guarded execution: in-process under the watchdog, then alone in a forked child with a 10x longer limit
struct guard_t
{
    std::vector<double> durations;
    double              median = 0.0;
    double              slowest = 0.0;
    std::string         slowest_what;
    uint64_t            reruns = 0;
    std::string         rerun_log;
    double              floor_s = 60.0;

    double limit() const { return std::max(50.0 * median, floor_s); }
    void   add(const double d)
    {
        durations.push_back(d);
        if ((durations.size() & 63U) == 0U || durations.size() < 8)
        {
            auto c = durations;
            std::nth_element(c.begin(), c.begin() + static_cast<std::ptrdiff_t>(c.size() / 2), c.end());
            median = c[c.size() / 2];
        }
    }
};

std::string encode(const exec_t& e)
{
    std::string s = "S\t" + std::to_string(e.status) + "\t" + std::to_string(e.exhausted ? 1 : 0) + "\t" +
                    std::to_string(e.moved ? 1 : 0) + "\t" + std::to_string(e.threw ? 1 : 0) + "\t" +
                    std::to_string(e.poisoned_answers) + "\t" + std::to_string(e.poisoned_result ? 1 : 0) + "\t" +
                    std::to_string(e.evals) + "\n";
    for (const auto& v : e.violations)
    {
        s += "V\t" + v.clause + "\t" + v.detail + "\n";
    }
    return s + "E\n";
}

bool decode(const std::string& s, exec_t& e)
{
    std::istringstream in(s);
    std::string        line;
    bool               complete = false;
    while (std::getline(in, line))
    {
        if (line.rfind("S\t", 0) == 0)
        {
            int       ex = 0, mv = 0, th = 0, pr = 0;
            long long ev = 0;
            std::sscanf(line.c_str(), "S\t%d\t%d\t%d\t%d\t%d\t%d\t%lld", &e.status, &ex, &mv, &th, &e.poisoned_answers, &pr, &ev);
            e.exhausted = ex != 0, e.moved = mv != 0, e.threw = th != 0, e.poisoned_result = pr != 0;
            e.evals     = static_cast<uint64_t>(ev);
        }
        else if (line.rfind("V\t", 0) == 0)
        {
            const auto p = line.find('\t', 2);
            e.violations.push_back({line.substr(2, p - 2), line.substr(p + 1)});
        }
        else if (line == "E")
        {
            complete = true;
        }
    }
    return complete;
}

exec_t run_in_child(const world_t& w, const setup_t& su, const std::vector<int>& prefix, const double cpu_limit)
{
    exec_t e;
    int    fds[2];
    if (pipe(fds) != 0)
    {
        std::perror("pipe");
        std::exit(2);
    }
    std::fflush(nullptr);
    const auto pid = fork();
    if (pid < 0)
    {
        std::perror("fork");
        std::exit(2);
    }
    if (pid == 0)
    {
        close(fds[0]);
        itimerval off{};
        setitimer(ITIMER_VIRTUAL, &off, nullptr);
        alarm(0);
        g_timeout = 0;
        signal(SIGVTALRM, SIG_DFL);
        signal(SIGALRM, SIG_DFL);
        for (const int sig : {SIGSEGV, SIGFPE, SIGABRT, SIGBUS})
        {
            signal(sig, SIG_DFL);
        }
        {
            // keep glibc's "free(): invalid size" chatter of a crashing child out of the shard log
            const int devnull = open("/dev/null", O_WRONLY);
            if (devnull >= 0 && std::getenv("C02_TRACE") == nullptr)
            {
                dup2(devnull, 2);
            }
        }
        rlimit rl{};
        rl.rlim_cur = static_cast<rlim_t>(cpu_limit);
        rl.rlim_max = static_cast<rlim_t>(cpu_limit) + 5;
        setrlimit(RLIMIT_CPU, &rl);
        alarm(static_cast<unsigned>(cpu_limit * 20)); // wall-clock backstop (default action: terminate)
        mc::chooser_t ch(prefix);
        std::string   text;
        try
        {
            text = encode(run_and_judge(w, su, su.faults ? &ch : nullptr));
        }
        catch (...)
        {
            text = "X\n";
        }
        size_t off2 = 0;
        while (off2 < text.size())
        {
            const auto k = write(fds[1], text.data() + off2, text.size() - off2);
            if (k <= 0)
            {
                break;
            }
            off2 += static_cast<size_t>(k);
        }
        _exit(0);
    }
    close(fds[1]);
    std::string text;
    char        buf[4096];
    for (;;)
    {
        const auto k = read(fds[0], buf, sizeof(buf));
        if (k > 0)
        {
            text.append(buf, static_cast<size_t>(k));
        }
        else if (k == 0 || errno != EINTR)
        {
            break;
        }
    }
    close(fds[0]);
    int st = 0;
    while (waitpid(pid, &st, 0) < 0 && errno == EINTR)
    {
    }
    if (!decode(text, e))
    {
        e = exec_t{};
        if (WIFSIGNALED(st) && (WTERMSIG(st) == SIGXCPU || WTERMSIG(st) == SIGKILL || WTERMSIG(st) == SIGALRM))
        {
            e.violations.push_back({"no-termination", jobj({{"cpu_limit_s", jnum(cpu_limit)}, {"signal", jint(WTERMSIG(st))}})});
        }
        else
        {
            // the recorded heap overflow of bundle_t at bundle::max_size = 2 has a key of its own; any other crash keeps the generic key
            const auto& vn         = su.variant.name;
            const bool  bundle_min = su.variant.kind == 2 && su.variant.i1 == 2 && vn.size() >= 16 && vn.compare(vn.size() - 16, 16, "bundle::max_size") == 0;
            e.violations.push_back({bundle_min        ? std::string("crash:bundle-max_size=2")
                                    : WIFSIGNALED(st) ? "crash(signal " + std::to_string(WTERMSIG(st)) + ")"
                                                      : std::string("crash"),
                                    jobj({{"wait_status", jint(st)}, {"signal", jint(WIFSIGNALED(st) ? WTERMSIG(st) : 0)}})});
        }
    }
    return e;
}

exec_t guarded(const world_t& w, const setup_t& su, mc::chooser_t* ch, guard_t& guard)
{
    if (std::getenv("C02_TRACE") != nullptr)
    {
        std::fprintf(stderr, "TRACE %s\n", describe(w, su).c_str());
    }
    exec_t        e;
    volatile bool timed_out = false;
    const double  limit     = guard.limit();
    const double  t0        = cpu_now();
    g_timeout               = 0;
    if (sigsetjmp(g_jmp, 1) == 0)
    {
        g_jmp_armed = 1;
        arm_timer(limit, static_cast<unsigned>(limit * 30));
        try
        {
            e = run_and_judge(w, su, ch);
        }
        catch (const timeout_t&)
        {
            timed_out = true;
        }
    }
    else
    {
        timed_out = true;
    }
    g_jmp_armed = 0;
    arm_timer(0.0, 0);
    g_timeout        = 0;
    const double dur = cpu_now() - t0;
    if (timed_out)
    {
        guard.reruns += 1;
        const std::vector<int> prefix = ch != nullptr ? ch->choices() : std::vector<int>{};
        const double           t1     = cpu_now();
        e                             = run_in_child(w, su, prefix, 10.0 * limit);
        rusage ru{};
        getrusage(RUSAGE_CHILDREN, &ru);
        std::fprintf(stderr, "watchdog: %s exceeded %.1f s CPU in-process (%.1f s), re-run alone: %s (children CPU so far %.1f s)\n", describe(w, su).c_str(), limit,
                     t1 - t0, e.violations.empty() ? "finished, no violation" : e.violations[0].clause.c_str(),
                     static_cast<double>(ru.ru_utime.tv_sec) + 1e-6 * static_cast<double>(ru.ru_utime.tv_usec));
        guard.rerun_log += (guard.rerun_log.empty() ? "" : ",") + describe(w, su);
    }
    else
    {
        guard.add(dur);
        if (dur > guard.slowest)
        {
            guard.slowest      = dur;
            guard.slowest_what = describe(w, su);
        }
    }
    return e;
}

/// mutant evaluation only: C02_SUPPRESS="pattern;pattern" turns the violation keys it matches (fnmatch) into outcomes
/// "suppressed:<key>", so that a seeded change can be judged against a tree whose recorded defects still fire
bool suppressed(const std::string& key)
{
    const char* env = std::getenv("C02_SUPPRESS");
    if (env == nullptr)
    {
        return false;
    }
    std::istringstream in(env);
    std::string        pat;
    while (std::getline(in, pat, ';'))
    {
        if (!pat.empty() && fnmatch(pat.c_str(), key.c_str(), 0) == 0)
        {
            return true;
        }
    }
    return false;
}

std::string vec_str(const std::vector<int>& h)
{
    std::string s;
    for (size_t i = 0; i < h.size(); ++i)
    {
        s += (i ? "," : "") + std::to_string(h[i]);
    }
    return s;
}

const char* status_name(const int status)
{
    switch (status)
    {
    case 0: return "max_iters";
    case 1: return "converged";
    case 2: return "failed";
    default: return "no-result";
    }
}

// ---------------------------------------------------------------------------------------------
// the thinning rule of stage "honest" (stated in the evidence): which (x0, epsilon, max_evals) triples are run
// for a (solver, function) pair. "full" = all 9 x 2 x 4 triples (n = 1: the 3 patterns coincide => 3 x 2 x 4).
bool on_diagonal(const tensor_size_t n, const int ix0, const int ieps, const int ime)
{
    // every x0 once; epsilon alternates along the x0 list and max_evals cycles so that every radius meets three budgets
    static const int me1[3] = {1, 3, 0};
    const int        want   = n == 1 ? me1[ix0 / 3] : (ix0 + 2 * (ix0 / 3)) % 4;
    return ieps == (n == 1 ? (ix0 / 3) % 2 : ix0 % 2) && ime == want;
}

std::vector<std::array<int, 3>> triples(const tensor_size_t n, const bool full, const int full_max_ime)
{
    // order: max_evals (slowest), x0, epsilon: the expensive budgets form runs of consecutive case numbers, which the
    // round-robin sharding spreads evenly
    std::vector<std::array<int, 3>> out;
    for (int ime = 0; ime < 4; ++ime)
    {
        for (int ix0 = 0; ix0 < 9; ++ix0)
        {
            if (n == 1 && ix0 % 3 != 0)
            {
                continue; // ones == alternating == e1 in one dimension
            }
            for (int ieps = 0; ieps < 2; ++ieps)
            {
                if ((full && ime <= full_max_ime) || on_diagonal(n, ix0, ieps, ime))
                {
                    out.push_back({ix0, ieps, ime});
                }
            }
        }
    }
    return out;
}

int self_test()
{
    // a hand-made wrong answer per clause must be rejected, the right one accepted
    obs_t o;
    o.n = 2;
    o.x = vector_t(2);
    o.x(0) = 1.0, o.x(1) = 2.0;
    o.gx = vector_t(2);
    o.gx(0) = 2.0, o.gx(1) = 4.0;
    o.fx = 5.0, o.status = 1, o.fcalls = 10, o.gcalls = 5, o.counted_calls = 10, o.counted_gcalls = 5;
    truth_t t;
    t.n = 2, t.f0 = 6.0, t.g0inf = 1.0, t.fx_value = 5.0, t.fx_vgrad = 5.0;
    t.gx = o.gx;
    t.line_search = true, t.in_class = true, t.budget_clause = true, t.max_evals = 10;
    if (!judge(o, t).empty())
    {
        return 2;
    }
    const auto rejects = [&](const obs_t& oo, const truth_t& tt, const char* clause)
    {
        const auto v = judge(oo, tt);
        return std::any_of(v.begin(), v.end(), [&](const viol_t& x) { return x.clause == clause; });
    };
    auto o1 = o;
    o1.fx   = std::nextafter(5.0, 6.0);
    auto o2 = o;
    o2.gx(1) = std::nextafter(4.0, 5.0);
    auto o3 = o;
    o3.fcalls = 11;
    auto o4 = o;
    o4.gcalls = 6;
    auto o5 = o;
    o5.status = 3;
    auto o6 = o;
    o6.fx = NaN;
    auto t6 = t;
    t6.fx_value = NaN, t6.fx_vgrad = NaN;
    auto t7 = t;
    t7.f0   = 4.99; // 5 > 4.99 + 5e-4 * 5.99
    auto o8 = o;
    o8.counted_calls = 900, o8.counted_gcalls = 300, o8.fcalls = 0, o8.gcalls = 0; // 1200 > 10 + 1100 + 16
    auto o9 = o;
    o9.x = vector_t(3);
    o9.x.full(0.0);
    auto o10 = o;
    o10.segments = {{1200, 1}};
    auto t10 = t;
    t10.constrained = true, t10.line_search = false;
    const bool ok = rejects(o1, t, "fx-differs-from-f(x)") && rejects(o2, t, "gx-differs-from-grad-f(x)") &&
                    rejects(o3, t, "reported-fcalls-exceed-performed") && rejects(o4, t, "reported-gcalls-exceed-performed") &&
                    rejects(o5, t, "status-not-in-{converged,max_iters,failed}") &&
                    rejects(o6, t6, "non-finite-result-with-status-converged") && rejects(o, t7, "value-larger-than-start") &&
                    rejects(o8, t, "budget-overshoot") && rejects(o9, t, "dimension") &&
                    rejects(o10, t10, "budget-overshoot-per-inner-solve");
    return ok ? 0 : 2;
}
} // namespace

int main(int argc, char** argv)
{
    const auto args  = parse_args(argc, argv);
    const auto stage = args.stage.empty() ? std::string("honest") : args.stage;
    report_t   r("c02/" + stage, args);

    if (self_test() != 0)
    {
        std::fprintf(stderr, "oracle self-test failed\n");
        return 2;
    }

    struct sigaction sa{};
    sa.sa_handler = on_timer;
    sigemptyset(&sa.sa_mask);
    sigaction(SIGVTALRM, &sa, nullptr);
    sigaction(SIGALRM, &sa, nullptr);
    signal(SIGSEGV, on_crash);
    signal(SIGFPE, on_crash);
    signal(SIGABRT, on_crash);
    signal(SIGBUS, on_crash);

    world_t w;
    w.solvers   = make_solvers();
    w.functions = make_functions(args.thorough());
    guard_t guard;

    std::vector<std::string> solver_ids, function_names;
    for (const auto& s : w.solvers)
    {
        solver_ids.push_back(s.id);
    }
    for (const auto& f : w.functions)
    {
        function_names.push_back(f.name);
    }
    std::map<std::string, double> cpu_by_family;

    const auto record = [&](const setup_t& su, const exec_t& e, const std::string& handle, const std::string& extra)
    {
        const auto& s = w.solvers[static_cast<size_t>(su.solver)];
        r.evaluations += 1;
        r.outcome(s.family + "/" + status_name(e.status));
        if (e.exhausted)
        {
            r.outcome("budget-exhausted");
        }
        if (e.moved || e.exhausted)
        {
            ++r.nontrivial;
        }
        for (const auto& v : e.violations)
        {
            auto detail = describe(w, su);
            detail.pop_back();
            detail += "," + jstr("observed") + ":" + v.detail + extra + "}";
            if (suppressed(s.id + ":" + v.clause))
            {
                r.outcome("suppressed:" + s.id + ":" + v.clause);
                continue;
            }
            r.violation(s.id + ":" + v.clause, handle, detail);
        }
    };

    if (stage == "honest" || stage == "params")
    {
        const bool params = stage == "params";
        // explicit case list (the thinned product), simplest first: function (by dimension), solver, triple
        std::vector<setup_t> cases;
        const auto           full_dims = static_cast<tensor_size_t>(args.geti("full-dims", 2));
        const auto           semi_dims = static_cast<tensor_size_t>(args.geti("semi-dims", full_dims));
        if (!params)
        {
            for (size_t fi = 0; fi < w.functions.size(); ++fi)
            {
                const auto n = w.functions[fi].f->size();
                for (size_t si = 0; si < w.solvers.size(); ++si)
                {
                    for (const auto& tr : triples(n, n <= semi_dims, n <= full_dims ? 3 : 2))
                    {
                        setup_t su;
                        su.solver = static_cast<int>(si), su.func = static_cast<int>(fi);
                        su.ix0 = tr[0], su.ieps = tr[1], su.ime = tr[2];
                        cases.push_back(su);
                    }
                }
            }
        }
        else
        {
            // parameter ends: functions of 2 and 4 dimensions from a fixed list, x0 = 1*ones and 10*alternating,
            // both epsilons, max_evals 100 and 300 (a bundle of up to max_size = 1000 planes makes larger budgets very slow)
            const std::vector<std::string> wanted = {"sphere[2D]", "rosenbrock[2D]", "hq-illcond[2D]", "hpwl-5[2D]", "maxq[4D]",
                                                     "kinks[4D]", "hq-tridiag[4D]", "hpwl-12[4D]", "qing[4D]", "mae+lasso[1][4D]"};
            for (size_t fi = 0; fi < w.functions.size(); ++fi)
            {
                if (std::find(wanted.begin(), wanted.end(), w.functions[fi].name) == wanted.end())
                {
                    continue;
                }
                for (size_t si = 0; si < w.solvers.size(); ++si)
                {
                    for (const auto& v : make_variants(w.solvers[si]))
                    {
                        for (const int ix0 : {3, 7})
                        {
                            for (int ieps = 0; ieps < 2; ++ieps)
                            {
                                // the penalty / augmented-Lagrangian solvers re-run their inner solver with a tightened precision at
                                // every outer iteration: the smallest budget keeps the outer loop going to its last iteration
                                for (const int ime : {0, 1, 4})
                                {
                                    if (ime == 0 && w.solvers[si].constrained == 0)
                                    {
                                        continue;
                                    }
                                    setup_t su;
                                    su.solver = static_cast<int>(si), su.func = static_cast<int>(fi);
                                    su.ix0 = ix0, su.ieps = ieps, su.ime = ime, su.variant = v;
                                    cases.push_back(su);
                                }
                            }
                        }
                    }
                }
            }
        }

        lattice_t lat;
        lat.axis("case", cases.size(), jstr("index into the thinned product below (deterministic order: function by dimension, solver, max_evals, x0, epsilon)"));
        lat.describe(r);
        r.axis("solvers", jarr_str(solver_ids));
        r.axis("functions", jarr_str(function_names));
        r.axis("x0", jstr("r*ones, r*alternating(+r,-r,..), r*e1 for r in {1e-3, 1, 10} (n=1: the three patterns coincide, one kept)"));
        r.axis("epsilon", jarr_num(std::vector<double>(EPSILONS, EPSILONS + 2)));
        r.axis("max_evals", jarr_num(std::vector<double>(MAX_EVALS, MAX_EVALS + 4)));
        if (!params)
        {
            r.axis("thinning", jstr("functions with n <= " + std::to_string(full_dims) + ": all x0 x epsilon x max_evals; " + std::to_string(full_dims) + " < n <= " +
                                    std::to_string(semi_dims) + ": all x0 x epsilon x max_evals <= 1000 plus the diagonal; n larger: the diagonal only = every x0 once with "
                                    "epsilon index = ix0 mod 2 and max_evals index = (ix0 + 2*(ix0 div 3)) mod 4 (n = 1: the three radii with (1e-4,100), (1e-8,5000), "
                                    "(1e-4,10)); every solver x every function is always run"));
        }
        else
        {
            r.axis("parameters", jstr("every registered parameter of the solver except solver::epsilon / solver::max_evals, one at a time at the lower and the upper "
                                      "end of its domain (closed end: the bound; open end: 1e-6 relative inside, 1e-30 next to 0; |value| clamped to 1e12; pairs: "
                                      "first component to the lower end / second to the upper end; enums: every other value) x 10 functions x 2 x0 x 2 epsilon x "
                                      "max_evals {100, 300}"));
        }
        const std::string tag = params ? "par" : "run";
        for_each_case(lat, r, tag,
                      [&](const uint64_t index, const std::vector<uint64_t>&)
                      {
                          const auto& su = cases[index];
                          std::snprintf(g_case_tag, sizeof(g_case_tag), "%s:%llu", tag.c_str(), static_cast<unsigned long long>(index));
                          const double t0 = cpu_now();
                          // parameter ends can break memory safety: every case of stage "params" runs alone in a forked child
                          // (10x the watchdog limit straight away), so that a crash is one keyed violation and the stage goes on
                          const auto e = params ? run_in_child(w, su, {}, 10.0 * guard.limit()) : guarded(w, su, nullptr, guard);
                          cpu_by_family[w.solvers[static_cast<size_t>(su.solver)].family] += cpu_now() - t0;
                          record(su, e, tag + ":" + std::to_string(index), "");
                          if (index % 4099 == 0)
                          {
                              auto d = describe(w, su);
                              d.pop_back();
                              r.sample(d + "," + jstr("status") + ":" + jstr(status_name(e.status)) + "," + jstr("evaluations") + ":" + jint(e.evals) + "}");
                          }
                      });
    }
    else if (stage == "faults")
    {
        const int maxdev = static_cast<int>(args.geti("maxdev", 1));
        const int max_k  = static_cast<int>(args.geti("maxk", 60));
        const int max_k2 = static_cast<int>(args.geti("maxk2", max_k)); // bound on k when two deviations are allowed
        const std::vector<std::string> wanted = {"sphere[2D]", "rosenbrock[2D]", "hpwl-5[2D]", "kinks[4D]", "maxq[4D]", "hq-tridiag[4D]"};
        std::vector<setup_t>           configs;
        for (const auto& name : wanted)
        {
            for (size_t fi = 0; fi < w.functions.size(); ++fi)
            {
                if (w.functions[fi].name != name)
                {
                    continue;
                }
                for (size_t si = 0; si < w.solvers.size(); ++si)
                {
                    setup_t su;
                    su.solver = static_cast<int>(si), su.func = static_cast<int>(fi);
                    su.ix0 = 3, su.ieps = 1, su.ime = 1; // x0 = 1*ones, epsilon 1e-8, max_evals 100
                    su.faults = true, su.max_k = max_k;
                    configs.push_back(su);
                }
            }
        }
        r.axis("configs", jint(configs.size()));
        r.axis("solvers", jarr_str(solver_ids));
        r.axis("functions", jarr_str(wanted));
        r.axis("fixed", jstr("x0 = 1*ones, epsilon = 1e-8, max_evals = 100"));
        r.axis("fault_alphabet", jstr("every new distinct point queried, k = 1.." + std::to_string(max_k) + " (x0 = point 0 is never poisoned): honest | NaN (gradient NaN) | +inf | 1e300; "
                                      "remembered per point; at most " + std::to_string(maxdev) + " poisoned points per execution" +
                                      (max_k2 < max_k ? " (two poisoned points: both among the first " + std::to_string(max_k2) + ")" : "")));

        const auto explore_config = [&](const size_t ci, const setup_t& su0, const int dev, const int k, bool& complete)
        {
            setup_t su = su0;
            su.max_k   = k;
            const auto st = mc::explore(
                [&](mc::chooser_t& ch)
                {
                    std::snprintf(g_case_tag, sizeof(g_case_tag), "F:%zu:%d", ci, k);
                    const double t0 = cpu_now();
                    const auto   e  = guarded(w, su, &ch, guard);
                    cpu_by_family[w.solvers[static_cast<size_t>(su.solver)].family] += cpu_now() - t0;
                    const auto& s = w.solvers[static_cast<size_t>(su.solver)];
                    r.outcome(s.family + "/" + status_name(e.status));
                    if (e.poisoned_answers > 0)
                    {
                        ++r.nontrivial;
                        r.outcome("poison-reached-the-solver");
                    }
                    if (e.poisoned_result)
                    {
                        r.outcome("returned-point-is-a-poisoned-point");
                    }
                    for (const auto& v : e.violations)
                    {
                        if (suppressed("faults:" + s.id + ":" + v.clause))
                        {
                            r.outcome("suppressed:faults:" + s.id + ":" + v.clause);
                            continue;
                        }
                        auto detail = describe(w, su);
                        detail.pop_back();
                        detail += "," + jstr("observed") + ":" + v.detail + "," + jstr("fault_choices(0 honest,1 NaN,2 +inf,3 1e300 per new point)") + ":" +
                                  jstr(vec_str(ch.choices())) + "}";
                        r.violation("faults:" + s.id + ":" + v.clause, "F:" + std::to_string(ci) + ":" + std::to_string(k) + "|" + vec_str(ch.choices()), detail);
                    }
                },
                [&](const mc::chooser_t&) { return !r.out_of_time(); }, dev);
            r.evaluations += st.executions;
            r.traces += st.executions;
            r.states += st.executions;
            r.transitions += st.choice_points;
            complete = complete && st.complete;
            return st;
        };

        if (!args.one.empty())
        {
            // "F:<config>:<k>|c0,c1,..."
            size_t           ci = 0;
            int              k  = 0;
            std::vector<int> choices;
            const auto       bar = args.one.find('|');
            if (std::sscanf(args.one.c_str(), "F:%zu:%d", &ci, &k) != 2 || ci >= configs.size() || bar == std::string::npos)
            {
                return 2;
            }
            const char* q = args.one.c_str() + bar + 1;
            while (*q)
            {
                choices.push_back(static_cast<int>(std::strtol(q, const_cast<char**>(&q), 10)));
                if (*q == ',')
                {
                    ++q;
                }
            }
            setup_t su = configs[ci];
            su.max_k   = k;
            mc::chooser_t ch(choices);
            const auto    e = guarded(w, su, &ch, guard);
            r.evaluations   = 1;
            const auto& s   = w.solvers[static_cast<size_t>(su.solver)];
            for (const auto& v : e.violations)
            {
                auto detail = describe(w, su);
                detail.pop_back();
                detail += "," + jstr("observed") + ":" + v.detail + "}";
                r.violation("faults:" + s.id + ":" + v.clause, args.one, detail);
            }
            return r.finish();
        }

        for (size_t ci = 0; ci < configs.size(); ++ci)
        {
            if (!args.mine(ci))
            {
                continue;
            }
            bool complete = true;
            // all fault sequences with at most maxdev poisoned points among the first max_k points; when a smaller bound max_k2 is
            // given for two faults: all single faults among the first max_k points, then all pairs among the first max_k2 points
            // (these two explorations overlap in the executions with <= 1 fault among the first max_k2 points: counted twice, stated)
            mc::explore_stats_t st1{}, st2{};
            if (maxdev >= 2 && max_k2 >= max_k)
            {
                st2 = explore_config(ci, configs[ci], maxdev, max_k, complete);
            }
            else
            {
                st1 = explore_config(ci, configs[ci], std::min(maxdev, 1), max_k, complete);
                if (maxdev >= 2 && complete)
                {
                    st2 = explore_config(ci, configs[ci], maxdev, max_k2, complete);
                }
            }
            if (!complete)
            {
                r.cap("deadline hit in fault exploration of config " + std::to_string(ci));
                break;
            }
            if (ci % 7 == 0)
            {
                auto d = describe(w, configs[ci]);
                d.pop_back();
                r.sample(d + "," + jstr("executions_single_fault") + ":" + jint(st1.executions) + "," + jstr("executions_two_faults") + ":" + jint(st2.executions) +
                         "," + jstr("max_choice_points") + ":" + jint(std::max(st1.max_choices, st2.max_choices)) + "}");
            }
        }
        if (maxdev >= 2 && max_k2 < max_k)
        {
            r.assume("thorough fault stage: executions with at most one fault among the first maxk2 points are run in both explorations and counted twice");
        }
    }
    else
    {
        std::fprintf(stderr, "unknown stage %s\n", stage.c_str());
        return 2;
    }

    for (const auto& [fam, s] : cpu_by_family)
    {
        r.note("cpu_s/" + fam, jnum(s));
    }
    r.note("reruns_in_child", jint(guard.reruns));
    if (!guard.rerun_log.empty())
    {
        r.note("rerun_cases_shard_" + std::to_string(args.shard), "[" + guard.rerun_log + "]");
    }
    r.note("slowest_case_of_first_shard", jobj({{"cpu_s", jnum(guard.slowest)}, {"case", guard.slowest_what.empty() ? "null" : guard.slowest_what}}));
    r.assume("'evaluations performed' in the budget clause = value evaluations + gradient evaluations counted by the wrapper (the unit of solver::max_evals)");
    r.assume("watchdog: 50x the running median of the case CPU time, at least 60 s CPU, then alone in a forked child with 10x that limit");
    return r.finish();
}
