// C05 (independence of evaluations) — the penalty functions are plain function objects: the value and gradient an
// evaluation returns may depend on nothing but (objective, constraints, x, penalty, multipliers). Two stages:
//
//  sched  : T threads, each owning its *own* objective, constraints, penalty function, point and output buffers,
//           evaluate concurrently under the controlled scheduler (E1). The harness objective and the harness functional
//           constraints are scheduling points (before and after their own evaluation), so a thread can be preempted
//           between the evaluation of a constraint and the accumulation of its term, and between two constraints — the
//           windows in which any state shared between penalty-function evaluations (a hoisted scratch buffer, a cached
//           multiplier cursor) is visible. Oracle: every schedule returns, bit for bit, the value and gradient of the
//           serial evaluation of the same object, which itself is checked against the formulas of function/penalty.h.
//
//  nested : one thread; a penalty function (of every kind) is registered as the function of a functional constraint of
//           another penalty function (of every kind) — re-entrant evaluation. Oracle: the defining formula of the outer
//           function with the inner value/gradient taken from a separately built, separately evaluated inner object.
//
// case encoding (sched): "P:<k0>.<k1>[.<k2>]:<evals>:<budget>|c0,c1,..."; (nested): "nested:<index>"
#include "verif.h"
#ifndef C05_NO_SCHED
#include "vsched.h"
#endif
#include <nano/function.h>
#include <nano/function/constraint.h>
#include <nano/function/penalty.h>
#include <sched.h>
#include <thread>
#include <unistd.h>

using namespace nano;
using namespace verif;

#ifdef C05_NO_SCHED
// the free-running (ThreadSanitizer) build does not link the scheduler
namespace sched
{
inline void point(int = 0)
{
}
} // namespace sched
#endif

namespace
{
using ld = long double;

enum pkind
{
    LINEAR    = 0,
    QUADRATIC = 1,
    AUGLAG    = 2
};

const char* pkind_name(const int k)
{
    return k == LINEAR ? "linear-penalty" : k == QUADRATIC ? "quadratic-penalty" : "augmented-lagrangian";
}

// f(x) = sum_i a_i x_i^2 + b_i x_i + c; optionally a scheduling point before and after the evaluation
class pquad_t final : public function_t
{
public:
    pquad_t(std::string name, std::vector<double> a, std::vector<double> b, const double c, const int label)
        : function_t(std::move(name), static_cast<tensor_size_t>(a.size()))
        , m_a(std::move(a))
        , m_b(std::move(b))
        , m_c(c)
        , m_label(label)
    {
        convex(convexity::yes);
        smooth(smoothness::yes);
    }

    rfunction_t clone() const override { return std::make_unique<pquad_t>(*this); }

    scalar_t do_vgrad(vector_cmap_t x, vector_map_t gx) const override
    {
        if (m_label >= 0)
        {
            sched::point(m_label);
        }
        double fx = m_c;
        for (tensor_size_t i = 0; i < size(); ++i)
        {
            const auto k = static_cast<size_t>(i);
            fx += m_a[k] * x(i) * x(i) + m_b[k] * x(i);
            if (gx.size() == x.size())
            {
                gx(i) = 2.0 * m_a[k] * x(i) + m_b[k];
            }
        }
        if (m_label >= 0)
        {
            sched::point(m_label + 1);
        }
        return fx;
    }

    // the same in long double, for the formula oracle
    ld value(const std::vector<double>& x, std::vector<ld>* g) const
    {
        ld fx = m_c;
        for (size_t k = 0; k < m_a.size(); ++k)
        {
            fx += static_cast<ld>(m_a[k]) * x[k] * x[k] + static_cast<ld>(m_b[k]) * x[k];
            if (g != nullptr)
            {
                (*g)[k] = 2.0L * m_a[k] * x[k] + m_b[k];
            }
        }
        return fx;
    }

private:
    std::vector<double> m_a, m_b;
    double              m_c;
    int                 m_label;
};

// one constrained problem owned by one thread: an objective with 2 functional and 2 library constraints
struct problem_t
{
    int                         n = 3;
    std::unique_ptr<pquad_t>    objective;
    std::vector<pquad_t>        hfun; ///< the functions of the functional constraints (copies; the library clones them)
    std::vector<int>            is_eq; ///< per registered constraint
    std::vector<double>         lin_q;
    double                      lin_r = 0;
    std::vector<double>         ball_o;
    double                      ball_r = 0;
    vector_t                    lambda, miu;
    std::unique_ptr<function_t> penalty;
    int                         kind = 0;
    double                      ro   = 1;
    std::vector<double>         x;
};

double gen(const int who, const int what, const int i)
{
    // small dyadic rationals: exact in double, different for every (thread, role, coordinate)
    const int v = (who * 37 + what * 11 + i * 5) % 17 - 8;
    return 0.25 * static_cast<double>(v == 0 ? 3 : v);
}

// order of registration: functional inequality, linear equality, functional equality, ball inequality
std::unique_ptr<problem_t> make_problem(const int who, const int kind, const bool points)
{
    auto p  = std::make_unique<problem_t>();
    p->kind = kind;
    p->n    = 3;
    p->ro   = who % 2 == 0 ? 2.0 : 8.0;
    std::vector<double> a(3), b(3);
    for (int i = 0; i < 3; ++i)
    {
        a[static_cast<size_t>(i)] = 0.5 + 0.25 * static_cast<double>((who + i) % 4);
        b[static_cast<size_t>(i)] = gen(who, 1, i);
    }
    p->objective = std::make_unique<pquad_t>("obj" + std::to_string(who), a, b, gen(who, 2, 0), points ? 10 : -1);
    for (int j = 0; j < 2; ++j)
    {
        std::vector<double> ha(3), hb(3);
        for (int i = 0; i < 3; ++i)
        {
            ha[static_cast<size_t>(i)] = 0.25 * static_cast<double>(1 + (who + i + j) % 3);
            hb[static_cast<size_t>(i)] = gen(who, 3 + j, i);
        }
        // the inequality is violated at x (positive constant), the equality is simply non-zero
        p->hfun.emplace_back("h" + std::to_string(j), ha, hb, j == 0 ? 4.0 : -1.5, points ? 20 + 2 * j : -1);
    }
    p->lin_q = {gen(who, 5, 0), gen(who, 5, 1), gen(who, 5, 2)};
    p->lin_r = gen(who, 6, 0);
    p->ball_o = {gen(who, 7, 0), gen(who, 7, 1), gen(who, 7, 2)};
    p->ball_r = 0.5;
    p->x      = {gen(who, 8, 0), gen(who, 8, 1), gen(who, 8, 2)};

    bool ok = true;
    ok      = ok && p->objective->constrain(constraint::functional_inequality_t{p->hfun[0]});
    p->is_eq.push_back(0);
    {
        vector_t q(3);
        q(0) = p->lin_q[0], q(1) = p->lin_q[1], q(2) = p->lin_q[2];
        ok = ok && p->objective->constrain(constraint::linear_equality_t{q, p->lin_r});
        p->is_eq.push_back(1);
    }
    ok = ok && p->objective->constrain(constraint::functional_equality_t{p->hfun[1]});
    p->is_eq.push_back(1);
    {
        vector_t o(3);
        o(0) = p->ball_o[0], o(1) = p->ball_o[1], o(2) = p->ball_o[2];
        ok = ok && p->objective->constrain(constraint::euclidean_ball_inequality_t{o, p->ball_r});
        p->is_eq.push_back(0);
    }
    if (!ok)
    {
        std::fprintf(stderr, "cannot register the constraints\n");
        std::exit(2);
    }
    p->lambda = vector_t(2);
    p->miu    = vector_t(2);
    p->lambda(0) = gen(who, 9, 0), p->lambda(1) = gen(who, 9, 1);
    p->miu(0) = std::fabs(gen(who, 9, 2)), p->miu(1) = std::fabs(gen(who, 9, 3));
    switch (kind)
    {
    case LINEAR:
    {
        auto f = std::make_unique<linear_penalty_function_t>(*p->objective);
        f->penalty(p->ro);
        p->penalty = std::move(f);
        break;
    }
    case QUADRATIC:
    {
        auto f = std::make_unique<quadratic_penalty_function_t>(*p->objective);
        f->penalty(p->ro);
        p->penalty = std::move(f);
        break;
    }
    default:
    {
        auto f = std::make_unique<augmented_lagrangian_function_t>(*p->objective, p->lambda, p->miu);
        f->penalty(p->ro);
        p->penalty = std::move(f);
        break;
    }
    }
    return p;
}

struct term_t
{
    ld              c = 0;
    std::vector<ld> g;
    bool            eq = false;
};

// q(c, x) of function/penalty.h from (objective value/gradient, constraint values/gradients)
void formula(const int kind, const ld ro, const ld f, const std::vector<ld>& gf, const std::vector<term_t>& terms,
             const std::vector<ld>& lambda, const std::vector<ld>& miu, ld& value, std::vector<ld>& grad, ld& sum_abs,
             std::vector<ld>& gsum_abs, bool& at_kink)
{
    value    = f;
    grad     = gf;
    sum_abs  = std::fabs(f);
    gsum_abs = std::vector<ld>(gf.size());
    at_kink  = false;
    for (size_t i = 0; i < gf.size(); ++i)
    {
        gsum_abs[i] = std::fabs(gf[i]);
    }
    size_t ieq = 0, iineq = 0;
    for (const auto& t : terms)
    {
        ld v = 0, w = 0; // term value, d(term)/d(c)
        if (kind == LINEAR)
        {
            const auto viol = t.eq ? std::fabs(t.c) : std::max<ld>(t.c, 0);
            at_kink         = at_kink || t.c == 0;
            v               = ro * viol;
            w               = t.eq ? ro * (t.c >= 0 ? 1 : -1) : (t.c > 0 ? ro : 0);
        }
        else if (kind == QUADRATIC)
        {
            const auto viol = t.eq ? t.c : std::max<ld>(t.c, 0);
            v               = ro * viol * viol;
            w               = 2 * ro * viol;
        }
        else
        {
            const auto mu = t.eq ? lambda[ieq++] : miu[iineq++];
            const auto s  = t.c + mu / ro;
            if (t.eq || s > 0)
            {
                v = 0.5L * ro * s * s;
                w = ro * s;
            }
        }
        value += v;
        sum_abs += std::fabs(v);
        for (size_t i = 0; i < grad.size(); ++i)
        {
            grad[i] += w * t.g[i];
            gsum_abs[i] += std::fabs(w * t.g[i]);
        }
    }
}

struct result_t
{
    double              fx = 0, fx_only = 0;
    std::vector<double> gx;
};

result_t evaluate(const problem_t& p)
{
    result_t r;
    vector_t x(p.n), g(p.n);
    for (int i = 0; i < p.n; ++i)
    {
        x(i) = p.x[static_cast<size_t>(i)];
    }
    g.full(std::numeric_limits<double>::quiet_NaN());
    r.fx = p.penalty->vgrad(x, g);
    r.gx.assign(g.data(), g.data() + g.size());
    r.fx_only = p.penalty->vgrad(x);
    return r;
}

constexpr ld EPS = std::numeric_limits<double>::epsilon();

bool close(const ld got, const ld exp, const ld sum_abs)
{
    return std::fabs(got - exp) <= 8 * EPS * (sum_abs + 1e-300L);
}

// the serial evaluation vs the formulas
std::string check_formula(const problem_t& p, const result_t& got)
{
    std::vector<ld>     gf(3);
    const auto          f = p.objective->value(p.x, &gf);
    std::vector<term_t> terms(4);
    terms[0].g.resize(3), terms[0].c = p.hfun[0].value(p.x, &terms[0].g), terms[0].eq = false;
    terms[1].g.resize(3), terms[1].eq = true;
    terms[1].c = p.lin_r;
    for (size_t i = 0; i < 3; ++i)
    {
        terms[1].c += static_cast<ld>(p.lin_q[i]) * p.x[i];
        terms[1].g[i] = p.lin_q[i];
    }
    terms[2].g.resize(3), terms[2].c = p.hfun[1].value(p.x, &terms[2].g), terms[2].eq = true;
    terms[3].g.resize(3), terms[3].eq = false;
    terms[3].c = -static_cast<ld>(p.ball_r) * p.ball_r;
    for (size_t i = 0; i < 3; ++i)
    {
        const ld d = static_cast<ld>(p.x[i]) - p.ball_o[i];
        terms[3].c += d * d;
        terms[3].g[i] = 2 * d;
    }
    ld              value = 0, sum_abs = 0;
    std::vector<ld> grad, gsum;
    bool            kink = false;
    formula(p.kind, p.ro, f, gf, terms, {p.lambda(0), p.lambda(1)}, {p.miu(0), p.miu(1)}, value, grad, sum_abs, gsum, kink);
    if (!close(got.fx, value, sum_abs))
    {
        return "value differs from the formula";
    }
    if (got.fx_only != got.fx)
    {
        return "value-only call differs from the value+gradient call";
    }
    for (size_t i = 0; i < 3 && !kink; ++i)
    {
        if (!close(got.gx[i], grad[i], gsum[i]))
        {
            return "gradient differs from the formula";
        }
    }
    return "";
}

#ifndef C05_NO_SCHED
// ------------------------------------------------------------------------------------------------------------------
// stage sched
struct config_t
{
    std::vector<int> kinds;
    int              evals  = 1;
    int              budget = 2;
    std::string      str() const
    {
        std::string s = "P:";
        for (size_t i = 0; i < kinds.size(); ++i)
        {
            s += (i ? "." : "") + std::to_string(kinds[i]);
        }
        return s + ":" + std::to_string(evals) + ":" + std::to_string(budget);
    }
};

struct context_t
{
    config_t                                cfg;
    report_t*                               r = nullptr;
    std::vector<std::unique_ptr<problem_t>> problems;
    std::vector<result_t>                   reference;
    std::vector<std::vector<result_t>>      got; ///< per thread, per evaluation
    int                                     violations_here = 0;
    uint64_t                                preempted       = 0;
    uint64_t                                distinct        = 0;
};

void body(void* q)
{
    auto&                    c = *static_cast<context_t*>(q);
    std::vector<std::thread> threads;
    for (size_t t = 0; t < c.problems.size(); ++t)
    {
        c.got[t].clear();
        threads.emplace_back(
            [&c, t]
            {
                for (int e = 0; e < c.cfg.evals; ++e)
                {
                    c.got[t].push_back(evaluate(*c.problems[t]));
                }
            });
    }
    for (auto& th : threads)
    {
        th.join();
    }
}

std::string choices_str(const int* ch, const int n)
{
    std::string s;
    for (int i = 0; i < n; ++i)
    {
        s += (i ? "," : "") + std::to_string(ch[i]);
    }
    return s;
}

void violation(context_t& c, const std::string& what, const int* ch, const int n, const std::string& detail)
{
    ++c.violations_here;
    c.r->violation("sched:" + what, c.cfg.str() + "|" + choices_str(ch, n),
                   jobj({{"config", jstr(c.cfg.str())}, {"what", jstr(what)}, {"detail", jstr(detail)}}));
}

bool after(void* q, const int* ch, const int n)
{
    auto& c = *static_cast<context_t*>(q);
    for (size_t t = 0; t < c.problems.size() && c.violations_here < 3; ++t)
    {
        const auto& ref = c.reference[t];
        if (static_cast<int>(c.got[t].size()) != c.cfg.evals)
        {
            violation(c, "evaluation-missing", ch, n, "thread " + std::to_string(t));
            continue;
        }
        for (const auto& g : c.got[t])
        {
            const auto who = std::string(pkind_name(c.cfg.kinds[t])) + " of thread " + std::to_string(t);
            if (std::memcmp(&g.fx, &ref.fx, sizeof(double)) != 0 || std::memcmp(&g.fx_only, &ref.fx_only, sizeof(double)) != 0)
            {
                violation(c, "value-depends-on-schedule:" + std::string(pkind_name(c.cfg.kinds[t])), ch, n,
                          who + ": got " + std::to_string(g.fx) + "/" + std::to_string(g.fx_only) + ", serial evaluation " +
                              std::to_string(ref.fx));
                break;
            }
            if (g.gx.size() != ref.gx.size() || std::memcmp(g.gx.data(), ref.gx.data(), sizeof(double) * ref.gx.size()) != 0)
            {
                std::string d = who + ": got (";
                for (const auto v : g.gx)
                {
                    d += std::to_string(v) + " ";
                }
                d += "), serial evaluation (";
                for (const auto v : ref.gx)
                {
                    d += std::to_string(v) + " ";
                }
                violation(c, "gradient-depends-on-schedule:" + std::string(pkind_name(c.cfg.kinds[t])), ch, n, d + ")");
                break;
            }
        }
    }
    if (sched::last_preemptions() > 0)
    {
        ++c.preempted;
    }
    return c.violations_here < 3;
}

[[noreturn]] void fatal(void* q, const sched::status_t why, const int* ch, const int n)
{
    auto& c = *static_cast<context_t*>(q);
    if (why == sched::ST_DIVERGED)
    {
        std::fprintf(stderr, "replay diverged for %s|%s\n", c.cfg.str().c_str(), choices_str(ch, n).c_str());
        _exit(2);
    }
    violation(c, why == sched::ST_DEADLOCK ? "deadlock" : why == sched::ST_HANG ? "hang" : "thread-leak", ch, n,
              "no execution of this schedule can complete");
    c.r->cap("exploration stopped at the first fatal schedule");
    c.r->finish();
    _exit(1);
}

bool setup(context_t& c)
{
    c.problems.clear();
    c.reference.clear();
    c.got.assign(c.cfg.kinds.size(), {});
    for (size_t t = 0; t < c.cfg.kinds.size(); ++t)
    {
        c.problems.push_back(make_problem(static_cast<int>(t), c.cfg.kinds[t], true));
        c.reference.push_back(evaluate(*c.problems.back())); // serial, no exploration active
        const auto why = check_formula(*c.problems.back(), c.reference.back());
        if (!why.empty())
        {
            c.r->violation("sched:serial-evaluation:" + why, c.cfg.str() + "|", jobj({{"config", jstr(c.cfg.str())}, {"thread", jint(t)}}));
            return false;
        }
    }
    c.violations_here = 0;
    return true;
}

bool parse_case(const std::string& s, config_t& k, std::vector<int>& choices)
{
    if (s.rfind("P:", 0) != 0)
    {
        return false;
    }
    const auto bar  = s.find('|');
    const auto head = s.substr(2, bar == std::string::npos ? std::string::npos : bar - 2);
    const auto c1   = head.find(':');
    const auto c2   = head.find(':', c1 + 1);
    if (c1 == std::string::npos || c2 == std::string::npos)
    {
        return false;
    }
    k.kinds.clear();
    std::stringstream ss(head.substr(0, c1));
    std::string       tok;
    while (std::getline(ss, tok, '.'))
    {
        k.kinds.push_back(std::atoi(tok.c_str()));
    }
    k.evals  = std::atoi(head.substr(c1 + 1, c2 - c1 - 1).c_str());
    k.budget = std::atoi(head.substr(c2 + 1).c_str());
    choices.clear();
    if (bar != std::string::npos)
    {
        const char* q = s.c_str() + bar + 1;
        while (*q)
        {
            choices.push_back(static_cast<int>(std::strtol(q, const_cast<char**>(&q), 10)));
            if (*q == ',')
            {
                ++q;
            }
        }
    }
    return !k.kinds.empty() && k.evals > 0;
}

int stage_sched(report_t& r, const args_t& args)
{
    context_t c;
    c.r = &r;
    {
        cpu_set_t set;
        CPU_ZERO(&set);
        const long ncpu = sysconf(_SC_NPROCESSORS_ONLN);
        CPU_SET(static_cast<int>(args.shard % (ncpu > 0 ? ncpu : 1)), &set);
        sched_setaffinity(0, sizeof(set), &set);
    }
    if (!args.one.empty())
    {
        std::vector<int> choices;
        if (!parse_case(args.one, c.cfg, choices))
        {
            return 2;
        }
        if (setup(c))
        {
            sched::config_t sc;
            sc.budget = c.cfg.budget;
            sched::replay(sc, body, after, fatal, &c, choices.data(), static_cast<int>(choices.size()));
        }
        r.evaluations = 1;
        r.traces      = 1;
        return r.finish();
    }

    const int             budget = static_cast<int>(args.geti("budget", 2));
    const int             maxT   = static_cast<int>(args.geti("maxT", 2));
    std::vector<config_t> configs;
    for (int k0 = 0; k0 < 3; ++k0)
    {
        for (int k1 = 0; k1 < 3; ++k1)
        {
            for (int evals = 1; evals <= 2; ++evals)
            {
                config_t k;
                k.kinds = {k0, k1}, k.evals = evals, k.budget = budget;
                configs.push_back(k);
            }
        }
    }
    if (maxT >= 3)
    {
        for (int k0 = 0; k0 < 3; ++k0)
        {
            config_t k;
            k.kinds = {k0, k0, k0}, k.evals = 1, k.budget = budget;
            configs.push_back(k);
            k.kinds = {k0, (k0 + 1) % 3, k0};
            configs.push_back(k);
        }
    }
    r.axis("threads", jstr("2 (every ordered pair of kinds, 1 and 2 evaluations each)" + std::string(maxT >= 3 ? "; 3 (same kind x3, and k,k',k), 1 evaluation each" : "")));
    r.axis("problem_per_thread", jstr("own convex quadratic objective (n=3), constraints in registration order: functional inequality "
                                      "(violated), linear equality, functional equality, ball inequality; own penalty, multipliers, point"));
    r.axis("scheduling_points", jstr("before/after the objective and before/after each functional constraint, thread creation and join"));
    r.axis("preemption_budget", jint(budget));
    for (size_t i = 0; i < configs.size(); ++i)
    {
        if (!args.mine(i))
        {
            continue;
        }
        c.cfg = configs[i];
        if (!setup(c))
        {
            break;
        }
        sched::config_t sc;
        sc.budget = budget;
        sc.prune  = 0; // the shared state under test is, by definition, unknown to the harness: no pruning
        sched::stats_t st;
        const double   left = args.deadline - r.elapsed();
        if (left <= 0)
        {
            r.cap("deadline: " + c.cfg.str() + " not explored");
            break;
        }
        sched::explore(sc, body, after, fatal, &c, 0, 1, left, &st);
        r.traces += st.executions;
        r.evaluations += st.executions;
        r.transitions += st.transitions;
        r.states += st.states;
        r.nontrivial += c.preempted;
        c.preempted = 0;
        r.outcome("config " + c.cfg.str() + " executions", st.executions);
        if (st.capped)
        {
            r.cap("deadline hit inside " + c.cfg.str());
        }
        r.sample(jobj({{"config", jstr(c.cfg.str())}, {"executions", jint(st.executions)}, {"max_decisions", jint(st.max_depth)}}));
        if (c.violations_here > 0)
        {
            break;
        }
    }
    r.assume("scheduling points are the harness callbacks (objective, functional constraints); code between two callbacks is "
             "atomic under the scheduler — races at a finer grain are the business of the free-running ThreadSanitizer stage");
    return r.finish();
}

#endif

// ------------------------------------------------------------------------------------------------------------------
// stage free: the same bodies free-running (ThreadSanitizer build), differential oracle only
int stage_free(report_t& r, const args_t& args)
{
    const int rounds = static_cast<int>(args.geti("rounds", 50));
    uint64_t  index  = 0;
    for (int k0 = 0; k0 < 3; ++k0)
    {
        for (int k1 = 0; k1 < 3; ++k1, ++index)
        {
            if (!args.one.empty() ? args.one != "free:" + std::to_string(index) : !args.mine(index))
            {
                continue;
            }
            std::fprintf(stderr, "CASE free:%llu\n", static_cast<unsigned long long>(index));
            std::fflush(stderr);
            std::vector<std::unique_ptr<problem_t>> problems;
            std::vector<result_t>                   reference;
            const std::vector<int>                  kinds = {k0, k1, k0};
            for (size_t t = 0; t < kinds.size(); ++t)
            {
                problems.push_back(make_problem(static_cast<int>(t), kinds[t], false));
                reference.push_back(evaluate(*problems.back()));
            }
            std::vector<int>         bad(kinds.size(), 0);
            std::vector<std::thread> threads;
            for (size_t t = 0; t < kinds.size(); ++t)
            {
                threads.emplace_back(
                    [&, t]
                    {
                        for (int e = 0; e < rounds; ++e)
                        {
                            const auto g = evaluate(*problems[t]);
                            if (g.fx != reference[t].fx || g.gx != reference[t].gx || g.fx_only != reference[t].fx_only)
                            {
                                ++bad[t];
                            }
                        }
                    });
            }
            for (auto& th : threads)
            {
                th.join();
            }
            r.evaluations += static_cast<uint64_t>(rounds) * kinds.size();
            r.nontrivial += static_cast<uint64_t>(rounds) * kinds.size();
            r.outcome("pair evaluated");
            for (size_t t = 0; t < kinds.size(); ++t)
            {
                if (bad[t] > 0)
                {
                    r.violation("free:result-depends-on-concurrent-evaluations:" + std::string(pkind_name(kinds[t])),
                                "free:" + std::to_string(index), jobj({{"thread", jint(t)}, {"wrong_evaluations", jint(bad[t])}}));
                }
            }
        }
    }
    r.axis("threads", jstr("3 free-running threads (kinds k0,k1,k0 for every ordered pair), own problems, " + std::to_string(rounds) + " evaluations each"));
    r.assume("this stage is a race detector run (ThreadSanitizer reports abort the shard); it is not an exploration of schedules");
    return r.finish();
}

// ------------------------------------------------------------------------------------------------------------------
// stage nested
struct nested_t
{
    int                                               okind = 0, ikind = 0, arrangement = 0;
    double                                            oro = 1, iro = 1;
    std::vector<double>                               x;
    std::unique_ptr<problem_t>                        inner;    ///< its penalty function is the constraint function
    std::unique_ptr<problem_t>                        inner_ref; ///< identical, evaluated on its own
    std::unique_ptr<pquad_t>                          objective;
    vector_t                                          lambda, miu;
    std::unique_ptr<function_t>                       outer;
    std::vector<int>                                  is_eq;
};

// a function shifted by a constant: s(x) = f(x) - shift (so that the nested inequality is violated at some points and
// satisfied at others); holds a clone of f
class shifted_t final : public function_t
{
public:
    shifted_t(const function_t& f, const double shift)
        : function_t("shifted", f.size())
        , m_f(f.clone())
        , m_shift(shift)
    {
        convex(f.convex() ? convexity::yes : convexity::no);
        smooth(f.smooth() ? smoothness::yes : smoothness::no);
    }
    shifted_t(const shifted_t& o)
        : function_t(o)
        , m_f(o.m_f->clone())
        , m_shift(o.m_shift)
    {
    }
    rfunction_t clone() const override { return std::make_unique<shifted_t>(*this); }
    scalar_t    do_vgrad(vector_cmap_t x, vector_map_t gx) const override { return m_f->vgrad(x, gx) - m_shift; }

private:
    rfunction_t m_f;
    double      m_shift;
};

int stage_nested(report_t& r, const args_t& args)
{
    const std::vector<std::vector<double>> points = {{0, 0, 0},       {0.5, -0.25, 1},   {-1, 2, 0.5},   {3, -2, 1.5}, {-0.125, 0.125, -0.5},
                                                     {5, 5, -5},      {0.25, 0.25, 0.25}, {-3.5, 0.75, 2}, {1, 1, 1}};
    const std::vector<double>              ros    = {0.125, 1.0, 1024.0};
    const std::vector<double>              shifts = {0.0, 4.0, 64.0, 4096.0};
    lattice_t                              lat;
    lat.axis("outer_kind", 3, jstr("linear-penalty, quadratic-penalty, augmented-lagrangian"));
    lat.axis("inner_kind", 3, jstr("linear-penalty, quadratic-penalty, augmented-lagrangian"));
    lat.axis("arrangement", 4,
             jstr("inner as functional inequality | inner as functional equality | inner as inequality then a linear equality | a "
                  "ball inequality then inner as equality then inner as inequality"));
    lat.axis("point", points.size(), jstr("9 points of [-5,5]^3 (dyadic coordinates)"));
    lat.axis("outer_penalty", ros.size(), "[0.125, 1, 1024]");
    lat.axis("shift", shifts.size(),
             jstr("the nested constraint is inner(x) - shift, shift in 0, 4, 64, 4096 (violated / satisfied depending on the point)"));
    lat.describe(r);

    for_each_case(
        lat, r, "nested",
        [&](const uint64_t index, const std::vector<uint64_t>& d)
        {
            const int  okind = static_cast<int>(d[0]), ikind = static_cast<int>(d[1]), arr = static_cast<int>(d[2]);
            const auto x     = points[d[3]];
            const auto oro   = ros[d[4]];
            const auto shift = shifts[d[5]];
            // the inner problem (who = 1) and an identical twin that is only ever evaluated on its own
            const auto inner = make_problem(1, ikind, false);
            const auto twin  = make_problem(1, ikind, false);
            const auto con   = shifted_t{*inner->penalty, shift};

            pquad_t          objective("outer", {1.0, 0.5, 0.75}, {0.25, -1.0, 0.5}, 1.5, -1);
            std::vector<int> layout; // 0: nested ineq, 1: nested eq, 2: linear eq, 3: ball ineq
            switch (arr)
            {
            case 0: layout = {0}; break;
            case 1: layout = {1}; break;
            case 2: layout = {0, 2}; break;
            default: layout = {3, 1, 0}; break;
            }
            const std::vector<double> lq = {0.5, -0.25, 1.0};
            const double              lr = -0.75;
            const std::vector<double> bo = {0.25, -0.5, 0.0};
            const double              br = 1.5;
            bool                      ok = true;
            int                       neq = 0, nineq = 0;
            for (const auto what : layout)
            {
                if (what == 0)
                {
                    ok = ok && objective.constrain(constraint::functional_inequality_t{con});
                    ++nineq;
                }
                else if (what == 1)
                {
                    ok = ok && objective.constrain(constraint::functional_equality_t{con});
                    ++neq;
                }
                else if (what == 2)
                {
                    vector_t q(3);
                    q(0) = lq[0], q(1) = lq[1], q(2) = lq[2];
                    ok = ok && objective.constrain(constraint::linear_equality_t{q, lr});
                    ++neq;
                }
                else
                {
                    vector_t o(3);
                    o(0) = bo[0], o(1) = bo[1], o(2) = bo[2];
                    ok = ok && objective.constrain(constraint::euclidean_ball_inequality_t{o, br});
                    ++nineq;
                }
            }
            if (!ok)
            {
                r.violation("nested:cannot-register", "nested:" + std::to_string(index), jobj({{"arrangement", jint(arr)}}));
                return;
            }
            vector_t lambda(neq), miu(nineq);
            for (int i = 0; i < neq; ++i)
            {
                lambda(i) = 0.5 - static_cast<double>(i);
            }
            for (int i = 0; i < nineq; ++i)
            {
                miu(i) = 0.25 + 2.0 * static_cast<double>(i);
            }
            std::unique_ptr<penalty_function_t> outer;
            if (okind == LINEAR)
            {
                outer = std::make_unique<linear_penalty_function_t>(objective);
            }
            else if (okind == QUADRATIC)
            {
                outer = std::make_unique<quadratic_penalty_function_t>(objective);
            }
            else
            {
                outer = std::make_unique<augmented_lagrangian_function_t>(objective, lambda, miu);
            }
            outer->penalty(oro);

            // the real thing
            vector_t vx(3), vg(3);
            vx(0) = x[0], vx(1) = x[1], vx(2) = x[2];
            vg.full(std::numeric_limits<double>::quiet_NaN());
            const auto fx      = outer->vgrad(vx, vg);
            const auto fx_only = outer->vgrad(vx);

            // the inner value and gradient from the twin, evaluated on its own
            twin->x = x;
            const auto in = evaluate(*twin);
            {
                // ... which must itself follow the formulas (else the comparison below proves nothing)
                const auto why = check_formula(*twin, in);
                if (!why.empty())
                {
                    r.violation("nested:inner-on-its-own:" + why, "nested:" + std::to_string(index), jobj({{"inner_kind", jstr(pkind_name(ikind))}}));
                    return;
                }
            }
            std::vector<ld> gf(3);
            const auto      f = objective.value(x, &gf);
            std::vector<term_t> terms;
            bool                any_violated = false;
            for (const auto what : layout)
            {
                term_t t;
                t.g.resize(3);
                if (what == 0 || what == 1)
                {
                    t.eq = what == 1;
                    t.c  = static_cast<ld>(in.fx) - shift;
                    // the library computes inner - shift in double
                    t.c = static_cast<ld>(in.fx - shift);
                    for (size_t i = 0; i < 3; ++i)
                    {
                        t.g[i] = in.gx[i];
                    }
                }
                else if (what == 2)
                {
                    t.eq = true;
                    t.c  = lr;
                    for (size_t i = 0; i < 3; ++i)
                    {
                        t.c += static_cast<ld>(lq[i]) * x[i];
                        t.g[i] = lq[i];
                    }
                }
                else
                {
                    t.eq = false;
                    t.c  = -static_cast<ld>(br) * br;
                    for (size_t i = 0; i < 3; ++i)
                    {
                        const ld dd = static_cast<ld>(x[i]) - bo[i];
                        t.c += dd * dd;
                        t.g[i] = 2 * dd;
                    }
                }
                any_violated = any_violated || t.eq || t.c > 0;
                terms.push_back(t);
            }
            std::vector<ld> vl, vm;
            for (int i = 0; i < neq; ++i)
            {
                vl.push_back(lambda(i));
            }
            for (int i = 0; i < nineq; ++i)
            {
                vm.push_back(miu(i));
            }
            ld              value = 0, sum_abs = 0;
            std::vector<ld> grad, gsum;
            bool            kink = false;
            formula(okind, oro, f, gf, terms, vl, vm, value, grad, sum_abs, gsum, kink);

            r.evaluations += 1;
            r.nontrivial += any_violated ? 1 : 0;
            r.outcome(any_violated ? "some constraint active" : "all constraints inactive");
            const auto key = std::string(pkind_name(okind)) + "<-" + pkind_name(ikind);
            const auto det = [&]
            {
                return jobj({{"outer", jstr(pkind_name(okind))},
                             {"inner", jstr(pkind_name(ikind))},
                             {"arrangement", jint(arr)},
                             {"x", jarr(x.begin(), x.end(), [](const double v) { return jnum(v); })},
                             {"outer_penalty", jnum(oro)},
                             {"shift", jnum(shift)},
                             {"value", jnum(fx)},
                             {"value_formula", jnum(static_cast<double>(value))},
                             {"gradient", jarr(vg.data(), vg.data() + 3, [](const double v) { return jnum(v); })},
                             {"gradient_formula", jarr(grad.begin(), grad.end(), [](const ld v) { return jnum(static_cast<double>(v)); })}});
            };
            // the inner gradient enters with weight w: allow its own rounding (8 eps of its magnitude is inside gsum)
            if (!close(fx, value, sum_abs) || fx_only != fx)
            {
                r.violation("nested:value:" + key, "nested:" + std::to_string(index), det());
            }
            else if (!kink)
            {
                for (size_t i = 0; i < 3; ++i)
                {
                    if (!close(vg(static_cast<tensor_size_t>(i)), grad[i], gsum[i]))
                    {
                        r.violation("nested:gradient:" + key, "nested:" + std::to_string(index), det());
                        break;
                    }
                }
            }
            if (index % 331 == 0)
            {
                r.sample(det());
            }
        });
    r.assume("the inner penalty function evaluated on its own follows the formulas (checked per case, and on the whole lattice "
             "of stage formulas)");
    return r.finish();
}

int self_test()
{
    // the formula oracle must reject a gradient that misses one constraint's term, and the differential oracle a flipped bit
    const auto p   = make_problem(0, QUADRATIC, false);
    auto       got = evaluate(*p);
    if (!check_formula(*p, got).empty())
    {
        return 0; // a genuine mismatch on the real code is reported by the stages, not hidden here
    }
    auto wrong = got;
    wrong.gx[1] += 1e-6 * (1.0 + std::fabs(wrong.gx[1]));
    if (check_formula(*p, wrong).empty())
    {
        return 2;
    }
    wrong = got;
    wrong.fx += 1e-6 * (1.0 + std::fabs(wrong.fx));
    wrong.fx_only = wrong.fx;
    return check_formula(*p, wrong).empty() ? 2 : 0;
}
} // namespace

int main(int argc, char** argv)
{
    const auto args  = parse_args(argc, argv);
    const auto stage = args.stage.empty() ? "sched" : args.stage;
    report_t   r("c05/" + stage, args);
    if (const auto rc = self_test(); rc != 0)
    {
        std::fprintf(stderr, "oracle self-test failed\n");
        return 2;
    }
#ifndef C05_NO_SCHED
    if (stage == "sched")
    {
        return stage_sched(r, args);
    }
#endif
    if (stage == "free")
    {
        return stage_free(r, args);
    }
    if (stage == "nested")
    {
        return stage_nested(r, args);
    }
    return 2;
}
