// C16: the checks of c16_impl.cpp instantiated for one scalar type
#define C16_TYPE int8_t
#define C16_NAME int8
#define C16_ASAN 1
#include "c16_impl.cpp"
