"""Table of harnesses and per-property stages used by bin/check."""

# sources that must never be compiled with a sanitizer (the scheduler's hand-offs have to stay invisible)
UNINSTRUMENTED = {"engine/sched.cpp"}

HARNESSES = {
    "c20_orderstats": {"src": ["harness/c20_orderstats.cpp"]},
}

HOOKS = {
    "guard": "NANO_VERIF",
    "enable": "every verification build of libnano and of the harnesses passes -DNANO_VERIF (bin/check, GUARD); no source "
              "hook exists so far: the scheduler binds to the code by link-time interposition",
    "baseline_off_cmd": "cmake -G Ninja -S /repo -B /repo/_build -DCMAKE_BUILD_TYPE=RelWithDebInfo && "
                        "cmake --build /repo/_build && ctest --test-dir /repo/_build -j8 --timeout 900",
    "source_commits": [],
    "add_only": True,
}

ENGINES = [
    {"name": "E1 sched", "path": "engine/sched.cpp", "serves_properties": ["C17", "C09", "C13", "C18"],
     "kind_free_text": "link-time interposed serialising scheduler over pthread mutex/cond/create/join and libstdc++ "
                       "future futex waits + preemption-bounded stateless DFS with happens-before fingerprint pruning"},
    {"name": "E2 mc", "path": "engine/mc.h", "serves_properties": ["C19", "C11", "C08", "C13", "C15", "C02"],
     "kind_free_text": "choice-point DFS with deviation bound and explicit-state BFS over operation histories of the "
                       "real objects, compared step by step with a reference model"},
    {"name": "E3 lattice", "path": "engine/verif.h", "serves_properties": ["C01", "C02", "C03", "C04", "C05", "C06", "C07",
                                                                          "C09", "C10", "C12", "C14", "C16", "C20"],
     "kind_free_text": "bounded-exhaustive enumeration of a finite input/configuration lattice (mixed-radix case "
                       "numbers, 16 shards), independent oracle on every case"},
]

NOTES = ("All checks run through bin/check, which rebuilds libnano (static libraries, variants rel/asan/tsan) from "
         "/repo's working tree with ninja and the harnesses with dependency files before exploring. Known findings: "
         "known_findings.json. Seeded property-breaking changes: seeded/. See DESIGN.md.")

NOT_APPLICABLE = {}

CHECKS = {
    "C20": {
        "level": "exploration",
        "engine": "E3 lattice",
        "technique": "bounded-exhaustive enumeration of value lists x percentages x threshold multisets x queries "
                     "against a sorted-array / exact-rational reference",
        "level_text": "every list of length <= 4 (quick) / <= 6 (thorough) over an 8-value alphabet with ties and negative "
                      "values is checked at all 401 percentages of the 0.25 grid and against all 164 threshold multisets; "
                      "this is a complete small-scope enumeration, not a proof for longer lists or other values",
        "level_note": "trusted: the reference (std::sort + exact integer position arithmetic), g++ 12, the alphabets as "
                      "representatives of the quantifier domain",
        "rule": "bounded-exhaustive enumeration (E3): every value list up to the stated length over the value alphabet x "
                "every percentage on the 0.25 grid / every threshold multiset of size 1..3 / every query value; a case is "
                "non-trivial when the percentile position is fractional between two distinct neighbours, when a stored "
                "value lies exactly on a threshold, or when the bin() query is a non-integer or equals a threshold",
        "assumptions": ["values/thresholds outside the alphabets and lists longer than the bound are not covered "
                        "(three structured lists of 101..500 values are added as a finite list)",
                        "means are compared with 1e-12 relative tolerance, everything else exactly"],
        "deadline": {"quick": 300, "thorough": 1500},
        "stages": [
            {"name": "pct", "harness": "c20_orderstats", "args": ["--stage", "pct"],
             "what": "percentile / percentile_sorted / median / ml::store_stats vs exact-rational position in the sorted list"},
            {"name": "hist", "harness": "c20_orderstats", "args": ["--stage", "hist"],
             "what": "histogram bins (direct, ratios, percentiles, exponents) vs partition by the counting rule"},
            {"name": "bin", "harness": "c20_orderstats", "args": ["--stage", "bin"], "shards": 4,
             "what": "histogram_t::bin(v) vs number of thresholds <= v"},
        ],
    },
}
