"""Table of harnesses and per-property stages used by bin/check."""

# sources that must never be compiled with a sanitizer (the scheduler's hand-offs have to stay invisible)
UNINSTRUMENTED = {"engine/sched.cpp"}

HOOKS = {
    "guard": "NANO_VERIF",
    "enable": "every verification build of libnano and of the harnesses passes -DNANO_VERIF (bin/check, GUARD); no source "
              "hook exists so far: the scheduler binds to the code by link-time interposition",
    "baseline_off_cmd": "cmake -G Ninja -S /repo -B /repo/_build -DCMAKE_BUILD_TYPE=RelWithDebInfo -DCMAKE_CXX_FLAGS=-Wno-error && "
                        "cmake --build /repo/_build && ctest --test-dir /repo/_build -j8 --timeout 900",
    "source_commits": [],
    "add_only": True,
}

ENGINES = [
    {"name": "E1 sched", "path": "engine/sched.cpp", "serves_properties": ["C17", "C09", "C13", "C18"],
     "kind_free_text": "link-time interposed serialising scheduler over pthread mutex/cond/create/join and libstdc++ "
                       "future futex waits + preemption-bounded stateless DFS with happens-before fingerprint pruning"},
    {"name": "E2 mc", "path": "engine/mc.h", "serves_properties": ["C19", "C11", "C08", "C13", "C02"],
     "kind_free_text": "choice-point DFS with deviation bound and explicit-state BFS over operation histories of the "
                       "real objects, compared step by step with a reference model"},
    {"name": "E3 lattice", "path": "engine/verif.h", "serves_properties": ["C01", "C02", "C03", "C04", "C05", "C06", "C07", "C08",
                                                                          "C09", "C10", "C11", "C12", "C14", "C15", "C16", "C18",
                                                                          "C19", "C20"],
     "kind_free_text": "bounded-exhaustive enumeration of a finite input/configuration lattice (mixed-radix case "
                       "numbers, 16 shards), independent oracle on every case"},
]

NOTES = ("All checks run through bin/check, which rebuilds libnano (static libraries, variants rel/asan/tsan) from "
         "/repo's working tree with ninja and the harnesses with dependency files before exploring. Known findings: "
         "known_findings.json. Seeded property-breaking changes: seeded/. See DESIGN.md.")

NOT_APPLICABLE = {}

# per-property tables live in bin/checks.d/<ID>.py, each defining HARNESSES and CHECKS
import glob as _glob
import importlib.util as _ilu
import os as _os

HARNESSES = {}
CHECKS = {}
for _path in sorted(_glob.glob(_os.path.join(_os.path.dirname(_os.path.abspath(__file__)), "checks.d", "C*.py"))):
    _spec = _ilu.spec_from_file_location("checks_d_" + _os.path.basename(_path)[:-3], _path)
    _mod = _ilu.module_from_spec(_spec)
    _spec.loader.exec_module(_mod)
    HARNESSES.update(getattr(_mod, "HARNESSES", {}))
    CHECKS.update(getattr(_mod, "CHECKS", {}))
