"""C04: harnesses and stages (loaded by bin/checks.py)."""

HARNESSES = {'c04_program': {'src': ['harness/c04_program.cpp']}}

CHECKS = {'C04': {'level': 'exploration',
         'engine': 'E3 lattice',
         'technique': 'bounded-exhaustive enumeration of small integer-coefficient linear / convex quadratic programs '
                      '(and of KKT-constructed programs up to 12 variables, and of equivalent restatements of both), '
                      'each decided by an exact-rational oracle (fractions over __int128: minimal-face enumeration for '
                      'feasibility, Farkas direction test for boundedness, active-set enumeration of exactly solved '
                      'KKT systems for the optimum) whose verdict carries a certificate that is re-verified by direct '
                      'exact evaluation; program::solver_t is run on every program and every `converged` answer is '
                      'held to the clauses of the statement with its constants',
         'level_text': 'every LP with n=2 variables, 0..3 inequality rows over {-1,0,1}^2 \\ {0} with h in {-1,0,1,2} '
                       '(modulo row order), 0 or 1 equality row from {x1+x2=1, x1-x2=0, x1=0} and c in {-1,0,1}^2 \\ {0}; '
                       'every convex QP over the same constraint sets (quick: up to 2 rows, thorough: up to 3) with the '
                       '14 distinct non-zero Q = D\'D, D over {-1,0,1}^{k x 2}, k in {1,2} (rank-deficient included) '
                       'and c in {-1,0,1}^2; thorough adds every LP with n=3, h in {0,1}, 0 or 1 equality row and 2..3 rows over '
                       '{-1,0,1}^3 \\ {0} (6 objectives) or 4 rows over a stated 14-row subset (3 objectives); programs with TWO equality rows: '
                       'n=2, all unordered pairs (a row may be paired with itself) over {x1+x2, x1-x2, x1, 2x1+2x2, '
                       '-x1-x2, 2x1-2x2} x b in {0,1,2} (parallel rows with inconsistent right-hand sides, scaled / '
                       'negated consistent duplicates, independent pairs) x 1..2 inequality rows over 6 rows x h in {0,2} '
                       '(thorough {0,1,2}) as LP (8 objectives) and QP (4 Q incl. two rank-1, 5 resp. 9 objectives), and '
                       'n=3 pairs over {x1+x2+x3, x1-x2, x3, 2x1+2x2+2x3} x {0,1,2} x 1..2 inequality rows over 8 rows x h '
                       'in {0,1} x 6 objectives; each from the '
                       'default x0 and from the first strictly feasible point of a stated lattice; 135 324 KKT-constructed '
                       'programs (n in {1,2,3,5,8,12}, magnitudes 1e-2..1e2); the feasible and bounded n=2, m=3 '
                       'programs and all KKT programs again in 11 equivalent restatements. A complete small-scope '
                       'enumeration with an exact oracle, not a proof for other coefficients or sizes',
         'level_note': 'trusted: __int128 rational arithmetic (overflow aborts the check), the direct exact evaluation '
                       'of certificates (feasible point / Farkas multipliers / unbounded direction / KKT multipliers), '
                       'binary128 evaluation of the clauses at the returned doubles, g++ 12; the oracle is additionally '
                       'compared with a brute-force search over a half-integer grid in plain integer arithmetic on '
                       'every n=2 program (stage `oracle`)',
         'rule': 'bounded-exhaustive enumeration (E3). One evaluation = one call of program::solver_t::solve on one '
                 'stated program from one starting point. Non-trivial = the solver reported `converged` and the answer '
                 'was held to all clauses (feasibility of the stated program, reported objective, optimality gap against '
                 'the exact f*). Programs that are infeasible or unbounded by the exact oracle (for which `converged` '
                 'would be a lie) and what the solver said for them are counted separately in the notes '
                 '(programs_infeasible / programs_unbounded / not_solvable_said_<status>) and in the outcomes. In the '
                 '`oracle` stage one evaluation = one program decided exactly and compared with the grid search',
         'assumptions': ['coefficients beyond the small integers / the three magnitudes and n > 12 are not covered',
                         'clause 3 (reported objective vs objective at x within 1e-6 of the magnitude of its terms): '
                         'magnitude = sum of the absolute values of the terms c_i x_i and x_i Q_ij x_j / 2, with the floor '
                         '1e-8 * M (the resolution of the statement\'s own optimality bound): without the floor the '
                         'rounding noise of points like x = 3e-16 would be reported',
                         'clause 4 uses the multipliers (u, v) exactly as returned (they belong to the internally '
                         'normalised program) and x* = the point of the exact optimal set closest to x (small programs) '
                         'or the constructed x* (KKT programs)',
                         'the clauses are evaluated in binary128 at the returned doubles (products exact, sums rounded '
                         'at 2^-113)',
                         'solver parameters at their defaults (epsilon = 1e-10, max_iters = 300)'],
         'deadline': {'quick': 900, 'thorough': 3000},
         'stages': [{'name': 'oracle',
                     'harness': 'c04_program',
                     'args': ['--stage', 'oracle'],
                     'share': 0.1,
                     'what': 'no solver: exact-rational verdict (with verified certificate) of every small program vs '
                             'brute-force search over the half-integer grid [-4,4]^n / [-8,8]^n in integer arithmetic (n=2: every '
                             'program, two-sided; n=3: every 101st program, one-sided)'},
                    {'name': 'small',
                     'harness': 'c04_program',
                     'args': ['--stage', 'small'],
                     'share': 0.35,
                     'what': 'every small LP / convex QP, default x0 and strictly feasible lattice x0: `converged` '
                             'only on feasible and bounded programs, equalities / inequalities of the stated program '
                             'within 1e-6 (1+|b|) / 1e-6 (1+|h|), reported objective, |f(x)-f*| bound'},
                    {'name': 'kkt',
                     'harness': 'c04_program',
                     'args': ['--stage', 'kkt'],
                     'share': 0.1,
                     'what': 'KKT-constructed programs n in {1,2,3,5,8,12}, p in {0,1,n-1}, m in {1,n,2n+2}, 4 kinds of '
                             'Q, 3 x* patterns, 3 active sets, multipliers and row scales over 1e-2..1e2: same clauses '
                             'with f* = f(x*)'},
                    {'name': 'restate',
                     'harness': 'c04_program',
                     'args': ['--stage', 'restate'],
                     'share': 0.45,
                     'what': 'feasible and bounded n=2, m=3 programs (quick: LPs; thorough: LPs and QPs over 6 of the '
                             '14 Q) and every KKT program in 11 restatements (equality rows duplicated / combined / '
                             'x-1 / x7, inequality rows x0.5 / x2 / x1000 / mixed, objective x0.01 / x100, variables '
                             'and rows permuted): the clauses of the restated program against the original optimum'}]}}
