"""C02: harnesses and stages (loaded by bin/checks.py)."""

HARNESSES = {'c02_solvers': {'src': ['harness/c02_solvers.cpp', 'engine/detrand.cpp']}}

CHECKS = {'C02': {'level': 'exploration',
         'engine': 'E3 lattice + E2 mc::explore (fault sequences)',
         'technique': 'bounded-exhaustive enumeration of (solver, function, x0, epsilon, max_evals, solver parameter) '
                      'with the user function wrapped in an independent evaluation counter, every reported value '
                      'recomputed through a fresh clone; exhaustive enumeration of fault sequences (which distinct '
                      'queried point answers NaN / +inf / 1e300) with a deviation bound',
         'level_text': 'all 35 factory solvers + linear-penalty, quadratic-penalty, augmented-lagrangian x every '
                       'registered benchmark prototype at 1,2,4,8 (thorough: 32) dimensions + 4 harness quadratics + '
                       '3 harness max-of-affine functions x 9 starting points x 2 epsilons x 4 budgets. quick: all '
                       'x0 x epsilon x budgets <= 1000 for n <= 2, elsewhere a diagonal (every x0 once, epsilon and '
                       'budget cycling); thorough: the full product for n <= 2, budgets <= 1000 for n <= 8, the '
                       'diagonal for n = 32, plus every solver parameter at both ends of its domain; every single '
                       '(thorough: every pair of) NaN / +inf / 1e300 answers among the first 60 distinct queried '
                       'points on 6 functions x all solvers; a complete small-scope enumeration, not a proof for '
                       'other functions, starting points or parameter values',
         'level_note': 'trusted: the declared smooth()/convex() flags of the functions (C06 checks them), g++ 12, the '
                       'link-time replacement of std::random_device (engine/detrand.cpp) that makes the gradient '
                       'sampling solvers replayable, the solver log lines "[solver-<id>]" that delimit the outer '
                       'iterations of the three constrained solvers',
         'rule': 'E3: one evaluation = one call of solver_t::minimize judged against every clause of the statement '
                 '(terminates under a CPU-time watchdog, dimension, fx == f(x) bitwise through a fresh clone for the '
                 'same kind of call, gx == grad f(x) for line-search solvers, status in {converged, max_iters, '
                 'failed}, reported calls <= counted calls, finite unless failed, f(x) <= f(x0) + 5e-4(1+|f(x0)|) for '
                 'functions in the documented class, value+gradient evaluations <= max_evals + 1100 + 8n per (inner) '
                 'solve); non-trivial = the solver left x0 or exhausted its budget. E2: one execution = one '
                 'minimize() of a function whose k-th new point may lie; non-trivial = a poisoned answer reached the '
                 'solver',
         'assumptions': ['the constrained solvers are given unconstrained functions (the library allows it: the '
                         'penalty function then equals the function); their inner solves are delimited by the '
                         'log line solver_t::done writes for the outer solver, inner solves inside one outer '
                         'iteration are counted from the inner solver\'s lines',
                         'the budget clause is checked for default line-search settings only (stage params skips it '
                         'for parameters named *lsearch* and solver::tolerance)',
                         'fault stage: only the honesty clauses (termination, dimension, fx/gx equal what the '
                         'poisoned function returns at x, status, counts, finiteness unless failed); x0 = 1*ones, '
                         'epsilon 1e-8, max_evals 100',
                         'stage params runs every case alone in a forked child (a crash is one keyed violation); '
                         'its budgets are 100 and 300 evaluations',
                         'benchmark prototypes are instantiated with 10 summands'],
         'deadline': {'quick': 900, 'thorough': 6000},
         'stages': [{'name': 'honest',
                     'harness': 'c02_solvers',
                     'args': ['--stage', 'honest'],
                     'args_quick': ['--full-dims', '0', '--semi-dims', '2'],
                     'args_thorough': ['--full-dims', '2', '--semi-dims', '8'],
                     'share': 0.6,
                     'crash_is_violation': True,
                     'what': 'solver x function x x0 x epsilon x max_evals with default solver parameters: every '
                             'clause of the statement'},
                    {'name': 'params',
                     'harness': 'c02_solvers',
                     'args': ['--stage', 'params'],
                     'tiers': ['thorough'],
                     'share': 0.15,
                     'crash_is_violation': True,
                     'what': 'every solver-specific parameter at both ends of its domain, one at a time'},
                    {'name': 'faults',
                     'harness': 'c02_solvers',
                     'args': ['--stage', 'faults'],
                     'args_quick': ['--maxdev', '1', '--maxk', '60'],
                     'args_thorough': ['--maxdev', '2', '--maxk', '60'],
                     'share': 0.3,
                     'crash_is_violation': True,
                     'what': 'fault sequences: the k-th distinct queried point answers NaN / +inf / 1e300; honesty '
                             'clauses only'}]}}
