"""C16: harnesses and stages (loaded by bin/checks.py)."""

_TYPES = ['int8', 'int16', 'int32', 'int64', 'uint8', 'uint16', 'uint32', 'uint64', 'float', 'double']

# c16_impl.cpp is included by every unit (it plays the role of a header); one unit per scalar type keeps the
# compile time and memory of the template-heavy checks bounded (the sanitizer build instantiates 4 of the 10)
HARNESSES = {'c16_tensor': {'src': ['harness/c16_tensor.cpp'] + ['harness/c16_t_%s.cpp' % t for t in _TYPES]}}

CHECKS = {'C16': {'level': 'exploration',
         'engine': 'E3 lattice',
         'technique': 'bounded-exhaustive enumeration of tensor shapes x scalar types x every accessor argument '
                      '(index tuples, index prefixes, slices, reshape factorisations, gather lists, removal masks, '
                      'block splits), every result judged by value and by address against an odometer enumeration '
                      'of the index tuples; second pass over exactly-sized heap blocks under ASan+UBSan',
         'level_text': 'all 1804 shapes of rank 1..4 with dimensions 0..4 and rank 5 with dimensions 0..3 (thorough: '
                       'rank 5 up to 4, 3905 shapes) x 10 scalar types x 4 storages are enumerated completely together '
                       'with every valid argument of offset/offset0/dims0/operator()/vector/array/matrix/tensor/'
                       'slice/reshape/indexed, 18 storage conversions, integral, remove_if (all 2^n masks, n<=4) and '
                       'stack (all 2-block and 2x2 splits up to 4x4); this is a complete small-scope enumeration, not '
                       'a proof for larger dimensions or ranks above 5 (40 larger shapes up to 1e5 elements are a '
                       'finite list with sampled views)',
         'level_note': 'trusted: the odometer oracle (lexicographic enumeration of index tuples, no stride '
                       'arithmetic), Eigen::Map element access, g++ 12 / ASan+UBSan runtime, modular narrowing '
                       'conversions of g++ for the 8/16-bit fill values',
         'rule': 'bounded-exhaustive enumeration (E3). One evaluation = one accessor call (or one element read/written '
                 'through a view) compared with the oracle. Non-trivial = the judged element or view has a non-zero '
                 'expected offset (full indexing: tuple number > 0; prefix views: something precedes the view; slices: '
                 'non-empty and not the whole tensor), reshape of more than one element into >= 2 factors or with an '
                 'inferred -1, gathers that reach an index > 0 of a non-empty tensor, conversions/integral of non-empty '
                 'tensors (integral: > 1 element), remove_if runs in which at least one sub-tensor moves, every stack',
         'assumptions': ['reshape with a -1 next to a zero dimension (not uniquely determined; the documentation asks for '
                         'positive remaining dimensions) is outside the judged alphabet; what the call does is recorded '
                         'in the note reshape_minus_one_next_to_zero_probe of the evidence',
                         'empty index lists for indexed() and empty blocks for stack() are not part of the alphabet '
                         '(the library asserts on them / documents "without gaps")',
                         'element blocks of owning tensors are allocated by Eigen; out-of-block accesses are observable '
                         'for them only through ASan, for mapped tensors also through canary zones',
                         'integral into the input scalar type is judged only where every prefix sum is representable'],
         'deadline': {'quick': 600, 'thorough': 2400},
         'stages': [{'name': 'rel',
                     'harness': 'c16_tensor',
                     'args': ['--stage', 'rel'],
                     'args_thorough': ['--maxdim5', '4', '--large_types', 'int16,int32,uint64,float,double'],
                     'share': 0.5,
                     'crash_is_violation': True,
                     'what': 'value/address oracle on all shapes x 10 scalar types x owning/const/map/cmap storages; '
                             'harness-owned blocks carry canary zones'},
                    {'name': 'asan',
                     'harness': 'c16_tensor',
                     'variant': 'asan',
                     'args': ['--stage', 'asan'],
                     'args_quick': ['--types', 'int8,double'],
                     'args_thorough': ['--types', 'int8,int32,uint64,double'],
                     'share': 0.5,
                     'crash_is_violation': True,
                     'what': 'the same lattices with every harness-owned element block exactly sized, ASan+UBSan build: '
                             'any out-of-block access, division by zero or other UB inside a judged call aborts the case'}]}}
