"""C16: harnesses and stages (loaded by bin/checks.py)."""

HARNESSES = {'c16_tensor': {'src': ['harness/c16_tensor.cpp']}}

CHECKS = {'C16': {'level': 'exploration',
         'engine': 'E3 lattice',
         'technique': 'bounded-exhaustive enumeration of tensor shapes x scalar types x every accessor argument, judged '
                      'by value and by address against an odometer enumeration of the index tuples',
         'level_text': 'placeholder',
         'level_note': 'placeholder',
         'rule': 'placeholder',
         'assumptions': [],
         'deadline': {'quick': 150, 'thorough': 900},
         'stages': [{'name': 'rel',
                     'harness': 'c16_tensor',
                     'args': ['--stage', 'rel'],
                     'share': 0.6,
                     'crash_is_violation': True,
                     'what': 'value/offset oracle'},
                    {'name': 'asan',
                     'harness': 'c16_tensor',
                     'variant': 'asan',
                     'args': ['--stage', 'asan'],
                     'args_quick': ['--types', 'int8,double'],
                     'args_thorough': ['--types', 'int8,int32,uint64,double'],
                     'share': 0.4,
                     'crash_is_violation': True,
                     'what': 'same lattices, exact heap blocks under ASan+UBSan'}]}}
