"""C14: harnesses and stages (loaded by bin/checks.py)."""

HARNESSES = {'c14_scaling': {'src': ['harness/c14_scaling.cpp']}}

CHECKS = {'C14': {'level': 'exploration',
         'engine': 'E3 lattice',
         'technique': 'bounded-exhaustive enumeration of small data matrices (column patterns x magnitudes x signs x '
                      'rows x column maps) x scaling modes x weight/bias alphabets on real datasets, against two-pass '
                      'long double statistics and the moments recomputed from the scaled values',
         'level_text': 'every 1- and 2-tuple (thorough: also every 3-tuple with a thinned third column) of input '
                       'columns over an 80-column alphabet (8 patterns incl. constant, near-constant, single-value and '
                       'all-missing x 5 magnitudes 1e-6..1e6 x 2 signs) with 1, 2, 3 or 7 rows and 3 '
                       'categorical/continuous column maps, and every 1- and 2-tuple of target columns over the '
                       '40 NaN-free columns, is pushed through make_*_stats, scale, upscale (all 4 modes), and through '
                       'nano::upscale + linear::predict for 4 x 4 modes x 4 weight matrices x 4 biases; a complete '
                       'small-scope enumeration, not a proof for other values, more rows or more columns',
         'level_note': 'trusted: the long double two-pass reference, g++ 12 / x86-64 long double, the dataset layer '
                       '(flatten/targets are compared with the enumerated matrix and a difference aborts the check), '
                       'the alphabets as representatives of the quantifier domain',
         'rule': 'bounded-exhaustive enumeration (E3). One evaluation = one (case, side, scaling mode) round trip or '
                 'one (case, input mode, target mode, W, b) model comparison. A round trip is non-trivial when the '
                 'mode is not "none" and at least one continuous column of that side is non-degenerate (>= 2 finite '
                 'values, max-min >= 1e-3 max|x|) so that the advertised moments are actually demanded; a model '
                 'comparison is non-trivial when W != 0 and at least one of the two modes is not "none"',
         'assumptions': ['columns are independent in the code under test, so tuples of at most 3 columns exercise the '
                         'indexing (assumption, not proof); matrices with more columns / rows beyond {1,2,3,7} are '
                         'not covered',
                         'thorough triples: the third column is restricted to all 8 patterns x magnitudes '
                         '{1, 1e-6, 1e6} x sign + (24 of 80 columns), the first two range over all 80, and 3 of the 5 '
                         'target specifications are used (one target, two targets, categorical target)',
                         'target columns cannot be missing (the datasource rejects optional targets), so the targets '
                         'side uses the 4 NaN-free patterns only; the side that is not enumerated completely uses a '
                         'stated thin list (5 target specifications / 3 input specifications)',
                         'deviation = sample deviation (N-1) as test_dataset_stats fixes it; moments and deviation are '
                         'demanded only for non-degenerate columns, with absolute tolerance 1e-9 on the scaled '
                         'values; degenerate columns must still give finite statistics, finite scaled values and an '
                         'exact round trip (1e-9 of the column magnitude)',
                         'model equivalence is evaluated on every data row without missing values plus one synthetic '
                         'finite probe row outside the data range; tolerance 64*eps*sum|terms| with the term '
                         'magnitudes computed from the statistics the library reports'],
         'deadline': {'quick': 400, 'thorough': 1800},
         'stages': [{'name': 'inputs',
                     'harness': 'c14_scaling',
                     'args': ['--stage', 'inputs'],
                     'share': 0.85,
                     'what': 'input matrices enumerated completely (singles, pairs, thorough: triples) x column map x '
                             '5 target specifications: statistics, scale/upscale round trip, advertised moments, '
                             'NaN -> 0, categorical untouched, un-scaled model equivalence'},
                    {'name': 'targets',
                     'harness': 'c14_scaling',
                     'args': ['--stage', 'targets'],
                     'share': 0.15,
                     'what': 'target columns enumerated completely (singles, pairs) x 3 input specifications: the same '
                             'clauses through the 4D overloads and make_targets_stats'}]}}
