"""C19: harnesses and stages (loaded by bin/checks.py)."""

HARNESSES = {'c19_params': {'src': ['harness/c19_params.cpp', 'harness/c19_factory.cpp', 'engine/detrand.cpp']}}

CHECKS = {'C19': {'level': 'model_checking',
         'engine': 'E2 mc (bfs) + E3 lattice',
         'technique': 'explicit-state model checking of the real nano::parameter_t: breadth-first search over '
                      'assignment histories, every history replayed on a fresh real parameter next to a reference '
                      'model written from the statement; bounded-exhaustive enumeration of every id of the 11 factories',
         'level_text': 'for each of 9 parameter shapes (enum, integer and scalar with <=/< bounds, integer and scalar '
                       'pairs with ordering constraints, string) the state graph over a 24..57-operation alphabet '
                       '(int/float/pair/string/enum assignments incl. NaN, inf, boundary +-1 ulp, garbage text, '
                       'write+read, copy) is explored until closed (the canonical state is the complete object state, '
                       'so the closed graph covers histories of any length over the alphabet); in addition every '
                       'history up to length 3 (quick) / 4 (thorough) over the full alphabet and up to 4 / 5 (6 for the two scalar '
                       'shapes) over a 10..16-operation core alphabet is executed without deduplication; every transition is judged '
                       'on clauses (i)-(iii)/(v) and the reader sweep (iv)+(v) is run on the final state of every '
                       'history except the full-alphabet ones of length 4. All ids of the 11 factories are checked for id, defaults, clone equality, '
                       'independence and a behaviour probe. Not a proof for values outside the alphabets',
         'level_note': 'trusted: the reference model (about 200 lines incl. the text-to-number classification), '
                       'strtod as the meaning of a decimal literal, g++ 12; the real objects of the factories are '
                       'probed at their defaults and one other in-domain value per parameter, not with full histories',
         'rule': 'a transition = one replay of a history on a fresh real parameter whose last operation is judged; '
                 'states = distinct canonical states of the deduplicating search; non-trivial = histories containing '
                 'both an accepted value-changing assignment and a rejected one / factory objects with at least one '
                 'parameter moved inside its domain; evaluations = transitions + factory objects',
         'assumptions': ['inputs whose conversion the statement does not define are judged only on (i) stored value '
                         'inside the domain and (ii) throw => state bit-identical, never on accept/reject or read-back: '
                         "numeric text followed by other text ('3abc'; '0.5', '1e-1', '5,7' given to an integer; '5,7' "
                         "given to a scalar; std::stoll/stod accept the prefix), pair text not of the form a<sep>b "
                         "('1,2,3', '5,,7'), literals that underflow ('1e-999')",
                         'non-integral doubles given to an integer parameter (the library truncates toward zero, '
                         'neither documented nor tested) and doubles outside the int64 range incl. NaN/inf given to '
                         'an integer parameter (undefined behaviour of the cast) are judged on (i) and (ii) only',
                         'assignments of another kind (number to pair/enum/string parameter, pair to non-pair, '
                         'enumeration to non-enumeration) are judged on (i) and (ii) only; reads of another kind must '
                         'throw',
                         'accepted doubles are compared with == (so -0.0 == 0.0), rejected assignments must leave the '
                         'state bit-identical',
                         'data sources are never load()ed; generators / weak learners / linear models are unfitted'],
         'deadline': {'quick': 120, 'thorough': 900},
         'stages': [{'name': 'bfs',
                     'harness': 'c19_params',
                     'args': ['--stage', 'bfs'],
                     'share': 0.8,
                     'what': 'state graph of parameter_t per shape (deduplicated, closed) + all histories up to the '
                             'length bound without deduplication, reference model clauses (i)-(v)'},
                    {'name': 'factory',
                     'harness': 'c19_params',
                     'args': ['--stage', 'factory'],
                     'share': 0.2,
                     'what': 'every id of solver/lsearch0/lsearchk/loss/splitter/tuner/generator/wlearner/linear/'
                             'datasource/function: id, defaults in domain, clone ==, bytes, probe, independence, '
                             'unknown names'}]}}
