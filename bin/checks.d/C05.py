"""C05: harnesses and stages (loaded by bin/checks.py)."""

HARNESSES = {'c05_penalty': {'src': ['harness/c05_penalty.cpp']},
             'c05_conc': {'src': ['harness/c05_conc.cpp', 'engine/sched.cpp']},
             'c05_conc_free': {'cflags': '-DC05_NO_SCHED', 'src': ['harness/c05_conc.cpp']}}

CHECKS = {'C05': {'level': 'exploration',
         'engine': 'E3 lattice + E1 sched',
         'technique': 'bounded-exhaustive enumeration of (objective, constraint subset, point, penalty, multipliers) '
                      'against the formulas of function/penalty.h coded independently in long double, plus '
                      'augmented-Lagrangian runs on a stated lattice of small constrained problems judged by '
                      'recomputed feasibility; preemption-bounded schedule exploration of concurrent evaluations of '
                      'independent penalty functions and an exhaustive lattice of nested (re-entrant) ones',
         'level_text': 'formulas: 4 objectives (sphere, a harness quadratic, rosenbrock, exponential) at n in {2,3} x '
                       'every subset of size 0..3 (thorough 0..4) of a pool of 22 constraints (2 coefficient instances '
                       'of each of the 11 kinds) x 9 lattice points of [-5,5]^n (every constraint violated at some, '
                       'satisfied at others, exactly on the boundary at some) x penalty in {1e-3,1,1e3,1e6} x every '
                       'multiplier combination over {0,1,-1 (equalities),10}; al: every feasible and bounded n=2 LP/QP '
                       'with 3 distinct inequality rows over a in {-1,0,1}^2, h in {-1,0,1,2} (thorough adds every set '
                       'of 4 rows with h in {0,1,2}) and 0 or 1 equality '
                       'row (feasibility and boundedness decided by exact integer vertex enumeration), 4 (thorough 8) '
                       'objectives, KKT-constructed LP/QPs with n in {2,3,5}, quadratics constrained by a ball / a '
                       'box, x epsilon in {1e-4,1e-6,1e-8} (thorough +1e-10) x 3 starting points; a complete '
                       'enumeration of these lattices, not a proof for other coefficients, points or problems; '
                       'independence: every schedule (<= 3, thorough 4 preemptions at the callback scheduling points) of '
                       '2..3 threads evaluating their own penalty functions, and 3888 nested penalty-in-penalty cases',
         'level_note': 'trusted: the objective functions themselves (function_t::vgrad of the unconstrained objective '
                       'is the definition of f and grad f), long double arithmetic of the harness, g++ 12, the '
                       'alphabets as representatives of the quantifier domain',
         'rule': 'bounded-exhaustive enumeration (E3). formulas: one evaluation = one call of '
                 'linear_penalty_function_t / quadratic_penalty_function_t / augmented_lagrangian_function_t::vgrad '
                 '(value-only and value+gradient) compared with q(c,x) of function/penalty.h recomputed from the '
                 "harness's own h_j, g_i (tolerance 8 eps * sum |terms|; at the kinks of the linear penalty any "
                 'subgradient is accepted); at feasible points with zero multipliers all three must equal the '
                 'objective exactly; the value-only call must equal the value of the value+gradient call. A case is '
                 'non-trivial when at least one constraint of the subset is violated at x. al: one evaluation = one '
                 'solver_augmented_lagrangian_t::minimize; status converged => every |h_j(x)| <= epsilon and '
                 'max(0,g_i(x)) <= epsilon recomputed from the problem, state.ceq()/cineq() equal the recomputation '
                 '(8 eps * sum |terms|) and the constraint evaluated at state.x() (bit for bit), '
                 'kkt_optimality_test1/2 equal the inf-norms derived from them. Non-trivial = runs that reported '
                 'converged',
         'assumptions': ['coefficients, points, penalties, multipliers and problems outside the lattices are not '
                         'covered; quadratic constraints use symmetric P only',
                         'the multiplier-dependent KKT residuals (tests 3-5) are not part of the statement and are '
                         'not judged'],
         'deadline': {'quick': 480, 'thorough': 2400},
         'stages': [{'name': 'formulas',
                     'harness': 'c05_penalty',
                     'args': ['--stage', 'formulas'],
                     'share': 0.4,
                     'what': 'the three penalty functions vs the definitions of function/penalty.h on every case of '
                             'the lattice'},
                    {'name': 'al',
                     'harness': 'c05_penalty',
                     'args': ['--stage', 'al'],
                     'share': 0.6,
                     'what': 'augmented-Lagrangian solver: converged => feasible within epsilon, stored constraint '
                             'values and feasibility KKT residuals equal the recomputation'},
                    {'name': 'nested',
                     'harness': 'c05_conc',
                     'args': ['--stage', 'nested'],
                     'share': 0.1,
                     'what': 'a penalty function of every kind registered as the functional constraint of a penalty '
                             'function of every kind (re-entrant evaluation) vs the formulas'},
                    {'name': 'sched',
                     'harness': 'c05_conc',
                     'args_quick': ['--stage', 'sched', '--budget', '3', '--maxT', '3'],
                     'args_thorough': ['--stage', 'sched', '--budget', '4', '--maxT', '3'],
                     'crash_is_violation': True,
                     'share': 0.3,
                     'what': 'independent penalty functions evaluated by 2..3 threads under the controlled scheduler '
                             '(scheduling points at the objective and functional-constraint callbacks): every '
                             'schedule returns the serial value and gradient bit for bit'},
                    {'name': 'free-tsan',
                     'harness': 'c05_conc_free',
                     'variant': 'tsan',
                     'args': ['--stage', 'free'],
                     'crash_is_violation': True,
                     'share': 0.1,
                     'what': 'the same bodies free-running under ThreadSanitizer (race oracle for state shared between '
                             'evaluations at a finer grain than the callbacks)'}]}}
