"""C11: harnesses and stages (loaded by bin/checks.py)."""

HARNESSES = {
    "c11_early": {"src": ["harness/c11_early.cpp"]},
    "c11_stats": {"src": ["harness/c11_stats.cpp"]},
}

CHECKS = {
    "C11": {
        "level": "model_checking",
        "engine": "E2 mc",
        "technique": "explicit-state BFS over error histories of the real early_stopping_t against a reference monitor; "
                     "bounded-exhaustive model-configuration lattice with statistics recomputed from the stored models",
        "level_text": "all (training, validation) error histories up to length 8 (quick) / 12 (thorough) over a 2x5 alphabet x "
                      "patience 1..4 x with/without validation samples x 2 epsilons are applied to the real monitor and "
                      "compared with a reference written from the statement after every step",
        "level_note": "trusted: the reference monitor (40 lines), the value alphabet as representative of real error values "
                      "(improvements smaller than, larger than and far from epsilon; no value exactly epsilon apart)",
        "rule": "a transition = one done() call on a freshly replayed real monitor; non-trivial = histories that end in a stop",
        "assumptions": [],
        "deadline": {"quick": 200, "thorough": 1200},
        "stages": [
            {"name": "early", "harness": "c11_early", "share": 0.5,
             "what": "early_stopping_t::done/round/value/values vs reference monitor, BFS over histories"},
            {"name": "stats", "harness": "c11_stats", "share": 0.5,
             "what": "stored per-(trial, fold) and final statistics vs recomputation from the stored models; predict = bias + "
                     "sum of weak learners; final = average of fold models; kept round = last accepted improvement"},
            {"name": "stats-asan", "harness": "c11_stats", "variant": "asan", "tiers": ["debug"], "what": "debug only"},
        ],
    },
}
