"""C12: harnesses and stages (loaded by bin/checks.py)."""

HARNESSES = {'c12_split': {'src': ['harness/c12_split.cpp', 'engine/detrand.cpp']}}

CHECKS = {'C12': {'level': 'exploration',
         'engine': 'E3 lattice',
         'technique': 'bounded-exhaustive enumeration of (n, folds, seed, train percentage, index list) for both '
                      'splitters and of (n, count, generator seed, weight vector) for the samplers; every returned '
                      'index vector is judged by std::set algebra (disjoint / sorted / union / partition / size / '
                      'membership / zero-weight exclusion), ball samples by a long-double distance',
         'level_text': 'every n in 2..40 x folds in 2..min(n,12) x seed (quick: 0,1,42,1024; thorough: all 1025 of '
                       'the parameter domain) x 12 train percentages x 3 index lists is run through the real '
                       'splitters, and every n in 1..12 x count x 1025 generator seeds (weights: all of {0,1,3}^n, '
                       'n<=5) through the samplers; this is a complete small-scope enumeration, not a proof for '
                       'larger n, other index values or other generators',
         'level_note': 'trusted: std::set / std::sort of libstdc++ 12, the link-time replacement of '
                       'std::random_device::_M_getval (engine/detrand.cpp) for the overloads without a generator, the '
                       'three index lists as representatives of "any list of distinct indices"',
         'rule': 'bounded-exhaustive enumeration (E3): one evaluation = one call of split() / of a sampler judged '
                 'against the statement; non-trivial = k-fold with n not divisible by folds or chunks of one sample, '
                 'random splitter with p*n/100 not integral (rounding decides the size), sampling without replacement '
                 'of a proper non-empty subset, sampling with replacement of count>0 from n>1, weighted sampling with '
                 'at least one zero weight and count>0, every ball sample',
         'assumptions': ['n > 40 is covered only by the finite list of stage "large" (n in {41,48,...,97,100,1000,5000}, '
                         '7 fold counts, 5 seeds, 4 index lists incl. irregular gaps) - not exhaustive',
                         'index values: 0..n-1, 100+3i ascending and 100+3i descending (an unsorted input list)',
                         'round(p*n/100) is evaluated on the exact rational, ties away from zero (std::round)',
                         'the generator is std::minstd_rand (nano::rng_t) seeded through nano::make_rng; the unseeded '
                         'overloads are driven by 8 (quick) / 64 (thorough) replayable std::random_device sequences',
                         'asserted preconditions of the samplers are respected (count <= n without replacement, n >= 1, '
                         'non-negative weights with a positive sum, radius > 0)'],
         'deadline': {'quick': 480, 'thorough': 2400},
         'stages': [{'name': 'kfold',
                     'harness': 'c12_split',
                     'args': ['--stage', 'kfold'],
                     'share': 0.1,
                     'what': 'k-fold splitter: pairs disjoint/sorted/cover, validation folds partition the input with '
                             'sizes differing by < k, equal seeds (second call, twin, clone) give equal splits'},
                    {'name': 'random',
                     'harness': 'c12_split',
                     'args': ['--stage', 'random'],
                     'share': 0.4,
                     'what': 'random splitter: pairs disjoint/sorted/cover, |train| = round(p*n/100), equal seeds give '
                             'equal splits'},
                    {'name': 'sample',
                     'harness': 'c12_split',
                     'args': ['--stage', 'sample'],
                     'share': 0.1,
                     'what': 'sample_without_replacement / sample_with_replacement (with and without a generator), '
                             'gboost::sampler_t off / subsample / bootstrap'},
                    {'name': 'weighted',
                     'harness': 'c12_split',
                     'args': ['--stage', 'weighted'],
                     'share': 0.2,
                     'what': 'weighted sample_with_replacement over {0,1,3}^n and gboost::sampler_t wei_loss / wei_grad: '
                             'no index of zero weight'},
                    {'name': 'ball',
                     'harness': 'c12_split',
                     'args': ['--stage', 'ball'],
                     'share': 0.1,
                     'what': 'sample_from_ball (4 overloads): dims x radius x centre x seeds, distance in long double'},
                    {'name': 'large',
                     'harness': 'c12_split',
                     'args': ['--stage', 'large'],
                     'share': 0.1,
                     'what': 'finite list of larger inputs for both splitters and the samplers (NOT exhaustive)'}]}}
