"""C10: harnesses and stages (loaded by bin/checks.py)."""

HARNESSES = {'c10_wlearner': {'src': ['harness/c10_wlearner.cpp']}}

CHECKS = {'C10': {'level': 'exploration',
         'engine': 'E3 lattice',
         'technique': 'bounded-exhaustive enumeration of tiny datasets (schema x samples x one value per sample and '
                      'feature incl. missing and ties) x gradient tensors x sample lists x learners, against a '
                      'brute-force search over the documented hypothesis classes on the plain table of values',
         'level_text': 'every dataset of 2..4 (thorough: 2..6, two outputs 2..5) samples with one feature and of 2..3 '
                       '(thorough: 2..4, two outputs 2..3) samples with two features (9 schemas: scalar over '
                       '{0,1,2,missing} or {0,1,2,3,missing}, single-label over 2 or 3 classes, multi-label over 2 '
                       'labels, and pairs of them), 1 and 2 outputs, every gradient tensor over {0,-1,2} (two '
                       'outputs: complete up to 2 (thorough 3) samples, a stated thin rule above) and 4 sample lists '
                       '(all, all-but-last, (0,0,1), reversed with a repetition) is fitted with stump, hinge, affine, '
                       'dense and dstep tables under the rss criterion and compared with the brute-force minimum of '
                       'the class; the consistency clauses are checked for all 4 criteria and all 8 learners (trees '
                       'of depth 1 and 2) on the datasets of 2..3 (thorough 2..4; four-level scalar schema 2..4) samples '
                       'with one feature and 2..3 samples with two features (two outputs: 2 samples; gradients of the '
                       'second output always by the thin rule; quick: only rss and aicc at 3 samples), and for 1, 2 '
                       'and 16 threads on the two schemas with two features of one kind; a complete small-scope '
                       'enumeration, not a proof for more samples, more features or other values',
         'level_note': 'trusted: the brute-force reference (two-pass means and least squares in long double on the '
                       'enumerated table), the dataset layer (property C08; feature types, sizes and target '
                       'dimensions are compared with the table and a difference aborts the check), g++ 12, the '
                       'alphabets as representatives of the quantifier domain',
         'rule': 'bounded-exhaustive enumeration (E3). One evaluation = one (dataset, gradient tensor, sample list, '
                 'learner[, criterion]) fit with all its clauses. optimal: non-trivial when the learner fitted and the '
                 'minimum of its class is below the RSS of the zero predictor (the learner had something to '
                 'explain); consistency: non-trivial when the learner fitted and predicts a non-zero value for at '
                 'least one sample. A learner that reports no_fit_score is counted as a trivial outcome (and must '
                 'then have an empty class in the optimal stage)',
         'assumptions': ['more than 6 samples / 2 features and feature values beyond 3 (one schema: 4) levels are not covered',
                         'hypothesis classes as documented in include/nano/wlearner/*.h: residual = negative gradient; '
                         'a sample whose selected feature is missing is predicted 0 and contributes its squared '
                         'gradient; stump / hinge thresholds are the mid-points between distinct consecutive given '
                         'values of the fitted samples; dense table = one constant per observed label (combination); '
                         'dstep = one constant for one observed label, zero elsewhere; scores floored at 1e3*eps',
                         'tolerance of the statement: |score - best| <= 1e-9 (1 + best) with the floor applied to '
                         'both sides; algebraic clauses (add, scale, merge) 1e-12 relative, permutation exactly',
                         'a fit that the table predicts to index an empty container (dstep table, categorical feature '
                         'without a given value among the fitted samples) is first probed in a forked child process so '
                         'that a crash is reported as a violation instead of killing the shard',
                         'trees of depth 2 can only fit when both children of the root still hold two distinct '
                         'values: this needs the four-level scalar schema with >= 4 samples, so most depth-2 '
                         'evaluations are trivial (no_fit) and are counted as such'],
         'deadline': {'quick': 480, 'thorough': 2400},
         'stages': [{'name': 'optimal',
                     'harness': 'c10_wlearner',
                     'args': ['--stage', 'optimal'],
                     'share': 0.6,
                     'what': 'rss criterion: fitted score of stump / hinge / affine / dense table / dstep table == '
                             'brute-force minimum RSS over the class (all features, mid-point thresholds, both hinge '
                             'directions, all labels, least-squares coefficients); RSS recomputed from predict() == '
                             'reported score; no_fit_score iff the class is empty'},
                    {'name': 'consistency',
                     'harness': 'c10_wlearner',
                     'args': ['--stage', 'consistency'],
                     'share': 0.4,
                     'what': 'all criteria x all learners (k-best / k-split tables, trees of depth 1 and 2): predict '
                             'adds to two different pre-filled buffers, zero for a missing selected feature, depends '
                             'only on the sample, equals the table of the split() group, scale by one factor and per '
                             'group, merge keeps the sum (same-type list [A, B, C, A] fitted on three gradient tensors, and the mixed list of all learners), '
                             'depth-1 tree == stump, score (and the unique best feature) independent of 1/2/16 '
                             'threads'}]}}
