"""C01: harnesses and stages (loaded by bin/checks.py)."""

HARNESSES = {'c01_lbfgs': {'src': ['harness/c01_lbfgs.cpp']}}

CHECKS = {'C01': {'level': 'exploration',
         'engine': 'E3 lattice',
         'technique': 'bounded-exhaustive enumeration of (quadratic problem, start, solver configuration) and of (smooth '
                      'function, start, solver, lsearch0, lsearchk, tolerances, epsilon, budget); every run of the real '
                      'solver_t::minimize is judged by a known minimiser / an independently recomputed gradient '
                      'criterion, with evaluations counted by a wrapper function of the harness',
         'level_text': 'quadratic stage: every harness quadratic 1/2 x\'Ax + a\'x with A = s Q diag(sigma) Q\', n in 1, 2, '
                       '3, 4, 8, 16, spectrum in {all equal; linear, log-spaced, one small, one large '
                       'eigenvalue at kappa = 10, 1e2, 1e3} (both tiers), s in 1e-3, 1, 1e3, Q in identity / '
                       'Householder of ones / product of Givens(pi/5), 4 minimisers in [-5,5]^n, 5 starts in [-10,10]^n, '
                       'solved by lbfgs (history 1, 5, 20) and bfgs at epsilon 1e-8. Truthfulness stage: all 17 '
                       'line-search solvers x 4 lsearch0 x 5 lsearchk (340 pairings) x tolerance pairs x epsilon in '
                       '1e-2, 1e-6, 1e-12 x max_evals in 50, 1000 x every registered smooth benchmark function '
                       '(convex or not) at the dimensions of the tier plus two harness quadratics x 3 starts. A complete '
                       'enumeration of these lattices; not a proof for other quadratics (random Q, other spectra), '
                       'functions, starts or tolerances',
         'level_note': 'trusted: the user functions (value and gradient returned by function_t::vgrad define f and grad '
                       'f), the construction of A (its spectrum is verified with a symmetric eigen-solver before the '
                       'enumeration), long-double norms of the harness, g++ 12, the alphabets as representatives of the '
                       'quantifier domain',
         'rule': 'bounded-exhaustive enumeration (E3). Quadratic stage: one evaluation = one minimize(); required for lbfgs '
                 '(default history) and bfgs: status converged, value calls + gradient calls counted by the wrapper <= 1500, ||x - x*||_2 <= sqrt(n) 1e-8 '
                 'max(1, |f(x)|) / lambda_min (f recomputed at the returned point); required for every configuration incl. lbfgs '
                 'history 1 and 5: converged => recomputed criterion < 1e-8; non-trivial = converged after more '
                 'than the evaluation at x0. Truthfulness stage: one evaluation = one minimize(); required: status '
                 'converged => max|grad f(x)| / max(1, |f(x)|) < epsilon recomputed through a fresh clone at the '
                 'returned x; non-trivial = runs that reported converged (the only ones the implication constrains)',
         'assumptions': ['the quantifier over all quadratics / all orthogonal Q is replaced by the stated structured '
                         'members including the extremes of every parameter range; random orthogonal Q by three fixed '
                         'ones',
                         'the distance bound is enlarged by ||A x* + a||_2 / lambda_min <= 1e-9 (rounding of the '
                         'coefficients a = -A x*); members of the product that coincide with a simpler member are '
                         'skipped',
                         'the convergence clause (status converged, <= 1500 counted evaluations, distance bound) is '
                         'worded for "the L-BFGS or BFGS solver at epsilon=1e-8" and is therefore judged for the default '
                         'configurations only (lbfgs with its default history 20, bfgs); lbfgs with history 1 and 5 '
                         'stays in the lattice but is held only to the truthfulness clause (converged => recomputed '
                         'criterion < epsilon, returned fx/gx are those of the returned x); its evaluation counts, '
                         'non-convergences and distances are recorded as outcomes "lbfgs-h1:...(not judged)" '
                         '(observed: up to 5018 evaluations and 6 runs ending max_iters at history 1; the absolute '
                         'threshold |f - f0| < 1e-10 in lsearchk_t::get, src/lsearchk.cpp:66, triples accepted unit '
                         'steps once f is below 1e-10)',
                         'every violation key carries the solver configuration (lbfgs-h20, bfgs, lbfgs-h5, lbfgs-h1) '
                         'and whether the minimum value is 0 (x* = 0, absolute criterion) or negative',
                         'solver::max_evals = 5000 in the quadratic stage so that the solver budget does not bind '
                         'before the 1500 evaluations of the statement',
                         'thinning between the tiers is by alphabet only (quick: registered functions at dimensions 1, 2, 4, 8; '
                         'thorough: + dimensions 3, 16, 32); inside a tier the product is '
                         'complete',
                         'a converged run whose recomputed criterion misses epsilon by rounding only (returned fx, gx '
                         'equal to the recomputed ones to 1e-13 and the criterion from the returned values < epsilon) '
                         'is counted as an outcome, not as a violation'],
         'deadline': {'quick': 240, 'thorough': 1500},
         'stages': [{'name': 'quadratic',
                     'harness': 'c01_lbfgs',
                     'args': ['--stage', 'quadratic'],
                     'share': 0.2,
                     'what': 'lbfgs (default history) / bfgs on harness quadratics: converged, <= 1500 counted '
                             'evaluations, distance to the known minimiser within the stated bound; lbfgs history 1 '
                             'and 5: converged => recomputed criterion < epsilon only'},
                    {'name': 'truthful',
                     'harness': 'c01_lbfgs',
                     'args': ['--stage', 'truthful'],
                     'share': 0.8,
                     'what': 'status converged => gradient criterion recomputed through a fresh clone < epsilon, for '
                             'all 340 solver / lsearch0 / lsearchk pairings'}]}}
