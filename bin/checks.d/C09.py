"""C09: harnesses and stages (loaded by bin/checks.py)."""

HARNESSES = {
    "c09_objectives": {"src": ["harness/c09_objectives.cpp"]},
    "c09_sched": {"src": ["harness/c09_sched.cpp", "engine/sched.cpp"]},
}

CHECKS = {
    "C09": {
        "level": "model_checking",
        "engine": "E3 lattice + E1 sched",
        "technique": "bounded-exhaustive thread-count x batch x cache x scaling x loss x regulariser lattice on tiny datasets "
                     "against a naive per-sample sum; preemption-bounded schedule exploration of one vgrad call",
        "level_text": "every combination of the listed axes is evaluated on the real objectives with real pools of 1..16 threads "
                      "and compared with the definition computed sample by sample in the harness (1e-9 relative as stated); the "
                      "chunk->worker schedules of one objective evaluation are explored under the controlled scheduler",
        "level_note": "trusted: the per-sample reference loop, loss_t::value/vgrad on single-sample tensors (losses are C06), "
                      "whole-list flatten/targets (C08) and scalar_stats_t::scale (C14)",
        "rule": "an evaluation = one vgrad call compared with the reference; non-trivial = more than one worker thread and more "
                "than one chunk, so that per-thread accumulators are actually combined",
        "assumptions": [],
        "deadline": {"quick": 600, "thorough": 2400},
        "stages": [
            {"name": "linear", "timing_dependent": True, "harness": "c09_objectives", "args": ["--stage", "linear"], "share": 0.4, "crash_is_violation": True,
             "what": "linear::function_t value/gradient vs mean loss + l1 mean|W| + l2/2 mean W^2"},
            {"name": "gboost", "timing_dependent": True, "harness": "c09_objectives", "args": ["--stage", "gboost"], "share": 0.3, "crash_is_violation": True,
             "what": "gboost bias / scale / grads objectives vs their definitions"},
            {"name": "linear-tsan", "harness": "c09_objectives", "variant": "tsan", "args": ["--stage", "linear", "--small", "1"],
             "share": 0.15, "crash_is_violation": True,
             "what": "the linear objective on a thin multi-thread, multi-chunk sub-lattice under ThreadSanitizer (race oracle)"},
            {"name": "gboost-tsan", "harness": "c09_objectives", "variant": "tsan", "args": ["--stage", "gboost", "--small", "1"],
             "share": 0.15, "crash_is_violation": True,
             "what": "the gboost objectives on the same sub-lattice under ThreadSanitizer (race oracle)"},
            {"name": "sched", "harness": "c09_sched", "args_quick": ["--budget", "2", "--maxW", "3"], "args_thorough": ["--budget", "2", "--maxW", "3", "--split", "frontier"],
             "crash_is_violation": True, "share": 0.3,
             "what": "one objective evaluation with W workers under the scheduler: every schedule gives the one-thread value"},
            {"name": "sched-deep", "harness": "c09_sched", "tiers": ["thorough"], "args": ["--budget", "3", "--maxW", "2", "--split", "frontier"],
             "crash_is_violation": True, "share": 0.3,
             "what": "the same with 2 workers and up to 3 preemptions (3 workers x 3 preemptions did not complete within the deadline and is not claimed)"},
        ],
    },
}
