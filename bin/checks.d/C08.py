"""C08: harnesses and stages (loaded by bin/checks.py)."""

HARNESSES = {
    "c08_views": {"src": ["harness/c08_views.cpp", "engine/detrand.cpp"]},
}

CHECKS = {
    "C08": {
        "level": "model_checking",
        "engine": "E3 lattice + E2 mc",
        "technique": "bounded-exhaustive schema x mask x index-list x generator-stack lattice on the real dataset_t against the "
                     "plain table the data source was filled from; explicit-state BFS over drop/shuffle/undrop/unshuffle "
                     "histories against a per-feature reference state; forked out-of-range probes under ASan",
        "level_text": "TODO",
        "level_note": "TODO",
        "rule": "TODO",
        "assumptions": [],
        "deadline": {"quick": 300, "thorough": 1500},
        "stages": [
            {"name": "bounds", "harness": "c08_views", "variant": "asan", "args": ["--stage", "bounds"], "share": 0.3,
             "crash_is_violation": True,
             "what": "out-of-range sample / feature indices are rejected with an exception and never read (ASan)"},
        ],
    },
}
