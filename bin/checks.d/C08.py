"""C08: harnesses and stages (loaded by bin/checks.py)."""

HARNESSES = {
    "c08_views": {"src": ["harness/c08_views.cpp", "engine/detrand.cpp"]},
}

CHECKS = {
    "C08": {
        "level": "model_checking",
        "engine": "E3 lattice + E2 mc",
        "technique": "bounded-exhaustive schema x samples x missing-mask x target x generator-stack x index-list lattice on the real "
                     "dataset_t against the plain table the data source was filled from; explicit-state BFS over "
                     "drop/shuffle/undrop/unshuffle histories against a per-feature reference state; out-of-range index probes "
                     "and two-list pairwise generators in forked children under ASan+UBSan",
        "level_text": "every schema of 1..2 (thorough: length 3 over 12 of the kinds) features over 16 feature kinds plus 4 fixed "
                      "12-feature schemas x N in {1,7,8,9,17} x 6 missing-value masks x (17 targets with the identity stack + 4 further "
                      "generator stacks x 3 targets) is loaded into the real datasource_t/dataset_t; per-feature select, flatten, "
                      "targets, the feature/column bookkeeping and the select/flatten/targets iterators (4 batch sizes, 1/2/16 threads) "
                      "are compared with the table for 6 sample index lists (incl. repeats, reversed, empty); all drop/shuffle/"
                      "undrop/unshuffle histories up to length 4 (thorough 5) on 8 three-feature datasets are replayed on the real "
                      "dataset and compared with a reference state after every step; every out-of-range sample/feature index call is "
                      "executed in a forked child of the ASan build",
        "level_note": "trusted: the table (std::optional per cell) and the 150 lines that encode it (one-hot +-1 with C-1 columns, "
                      "2*hit-1, row-major), vt::table_datasource_t (fills the library's own exactly sized storage through the "
                      "protected datasource_t::set), feature names as the identity of generated features, ASan/UBSan as the "
                      "'never read' oracle, engine/detrand.cpp for replayable shuffles. Gradient feature values are not "
                      "recomputed (the statement fixes none): their two views must agree and be NaN exactly where the source is "
                      "missing",
        "rule": "views: an evaluation = one view (select of one feature, flatten, targets, target select, one iterator loop) compared "
                "element-wise and exactly with the table; non-trivial = some input column of the case has both given and missing "
                "samples. history: a transition = one operation on a freshly replayed real dataset followed by the comparison of "
                "both views of all three features on three index lists; non-trivial = the resulting reference state has a dropped "
                "or shuffled feature. bounds: an evaluation = one call in a forked child; non-trivial = the index is out of range. "
                "pairs: an evaluation = one (features1, features2) pair; non-trivial = some cross pair has its larger input in "
                "features1",
        "assumptions": [
            "the gradient generator ignores inputs with fewer than 3 rows or columns, so no structured feature within the literal "
            "dims bound 3x3x2 of the property produces gradient features: the gradient stacks append a u8 1x3x4 input (stated in "
            "the axes); gradient values themselves are not part of the statement",
            "flatten/targets iterators with scaling 'none' replace non-finite values by 0 (scalar_stats_t::scale, documented by the "
            "repository's check_flatten fixture): they are compared with the flattened table after the same replacement",
            "length-3 schemas (thorough) range over 12 of the 16 kinds (without i16, i32, u16, u32); thread pools of 2 and 16 workers are exercised on a thinner "
            "lattice (viewsmt.* axes)",
            "where the statement is silent (undrop on a shuffled feature, unshuffle on a dropped feature, shuffle of a dropped "
            "feature) either outcome is accepted and the reference follows the implementation",
        ],
        "deadline": {"quick": 600, "thorough": 2400},
        "stages": [
            {"name": "views", "harness": "c08_views", "args": ["--stage", "views"], "share": 0.55,
             "crash_is_violation": True,
             "what": "per-feature select, flatten, targets, bookkeeping and the three iterators vs the table"},
            {"name": "history", "harness": "c08_views", "args": ["--stage", "history"], "shards": 8, "share": 0.15,
             "crash_is_violation": True,
             "what": "BFS over drop/shuffle/undrop/unshuffle histories: both views of all features vs the per-feature reference state"},
            {"name": "pairs", "harness": "c08_views", "variant": "asan", "args": ["--stage", "pairs"], "share": 0.1,
             "crash_is_violation": True,
             "what": "pairwise product built from two feature lists: features = unordered cross pairs, values = product of the two "
                     "sources, no memory error (ASan, forked children)"},
            {"name": "bounds", "harness": "c08_views", "variant": "asan", "args": ["--stage", "bounds"], "share": 0.2,
             "crash_is_violation": True,
             "what": "out-of-range sample / feature indices are rejected with an exception and never read (ASan, forked children)"},
        ],
    },
}
