"""C03: harnesses and stages (loaded by bin/checks.py)."""

HARNESSES = {'c03_bundle': {'src': ['harness/c03_bundle.cpp']}}

CHECKS = {'C03': {'level': 'exploration',
         'engine': 'E3 lattice',
         'technique': 'bounded-exhaustive enumeration of (sharp non-smooth convex function with analytically known '
                      'minimum, starting point, epsilon, evaluation budget, bundle size, curve-search / proximity '
                      'parameters, solver); every state returned by the real solver_t::minimize is judged against the '
                      'known (x*, f*)',
         'level_text': 'the functions ||A\'(x-x*)||_1 and ||A\'(x-x*)||_inf, each with and without (1/2)||x-x*||^2, for '
                       'A in {I, 2I, diag(1..n), Givens-chain * diag(1..n)} (A\' = A for the 1-norm and sqrt(n) A for '
                       'the inf-norm so that f(x)-f* >= ||x-x*||_2), n in {1,2,3} (thorough: {1,2,3,4,6,8}), 3 minimisers '
                       'x* in [-3,3]^n, 4 starting points at distance 4, epsilon in {1e-3,1e-5,1e-8} are minimised with '
                       'rqb, fpba1, fpba2 for bundle sizes {2,5,20} (thorough: + 100), max_evals {100,2000} (thorough: + '
                       '20000, combined with epsilon = 1e-8 only) and the default curve-search / proximity parameters '
                       '(thorough: + one alternative set of each, combined with the two diagonal starting directions '
                       'only), and with the ellipsoid method (R = 10, max_evals '
                       '{100,2000,20000} x all epsilon); the full product of the stated axes is run, nothing is '
                       'sampled; it is a complete enumeration of that lattice, not a proof for other functions, '
                       'dimensions or parameters',
         'level_note': 'trusted: the harness functions (the value at the returned point is recomputed in long double '
                       'from the definition, state.fx() is not used; the self-test checks sigma_min(A\') by SVD, '
                       'f(x*) = 0, the sharpness f(x) >= ||x-x*||_2 and the sub-gradient inequality on a point set '
                       'that contains the kinks), g++ 12, fork() isolation of every run, the alphabets as '
                       'representatives of the quantifier domain',
         'rule': 'bounded-exhaustive enumeration (E3). One evaluation = one solver_t::minimize in a forked child. '
                 'rqb / fpba1 / fpba2 report converged => f(x)-f* <= 2 eps sqrt(n) (1 + ||x-x*||_2); ellipsoid reports '
                 'converged => f(x)-f* <= 10 eps; ellipsoid with n <= 6 and max_evals = 20000 => reports converged. '
                 'A case is non-trivial when the solver reported converged. Violation keys: '
                 '<solver>:converged-gap-exceeds-bound:eps=<eps>:<l1|linf>[+quad][:params=<default|csearch-alt|prox-alt>] '
                 'and ellipsoid:not-converged-within-20000-evals:eps=<eps>:<function>',
         'assumptions': ['the inf-norm family uses sqrt(n) A (sigma_min >= sqrt(n) >= 1): with sigma_min(A) >= 1 alone '
                         '||Az||_inf >= ||z||_2 / sqrt(n) only, which is not the sharpness the statement presupposes',
                         'at n = 1 the coinciding members of the alphabets (A, x*, x0) are run once',
                         'bundle_t::delete_largest reads an uninitialised slot when bundle::max_size = 2 '
                         '(bundle.cpp:105); the runs are made deterministic with mallopt(M_PERTURB, 0x55): fresh heap '
                         'memory reads as a tiny negative double, the same branch as zero-filled pages (with a large '
                         'positive content, C03_PERTURB=128, the same runs write past the end of the bundle, '
                         'bundle.cpp:148, and mostly die)',
                         'a run whose child process dies with a signal (observed: the heap overflow in '
                         'bundle_t::append, also for fpba2 with bundle::max_size = 5 in the thorough tier) is counted '
                         'under the outcome CRASHED, listed as a cap and not judged: the statement speaks about '
                         'returned states',
                         'a run that needs more than max(60 s quick / 120 s thorough, 50 x the median) CPU time is '
                         'aborted at its next function evaluation and run again alone at the end of the shard with '
                         'four times that limit; only if it exceeds that too it is listed as a potential hang (cap), '
                         'never as a violation',
                         'thinning of the bundle stage: the 20000-evaluation budget is combined with epsilon = 1e-8 '
                         'only (7 of the 9 (epsilon, max_evals) pairs); a run that did not converge at 1e-3 / 1e-5 within '
                         '2000 evaluations is not followed further; the alternative csearch / prox parameter sets are '
                         'combined with the starting directions ones/sqrt(n) and (+1,-1,...)/sqrt(n) only (8 of the 12 '
                         '(direction, parameter set) pairs)',
                         'functions, dimensions, starting points and parameter values outside the lattice are not '
                         'covered'],
         'deadline': {'quick': 600, 'thorough': 2400},
         'stages': [{'name': 'bundle',
                     'harness': 'c03_bundle',
                     'args': ['--stage', 'bundle'],
                     'share': 0.8,
                     'what': 'solvers "rqb", "fpba1", "fpba2" x bundle::max_size x csearch / prox parameter sets vs '
                             'the known minimum: converged => gap <= 2 eps sqrt(n) (1 + ||x - x*||_2)'},
                    {'name': 'ellipsoid',
                     'harness': 'c03_bundle',
                     'args': ['--stage', 'ellipsoid'],
                     'share': 0.2,
                     'what': 'solver "ellipsoid" (R = 10 >= ||x0 - x*|| = 4) vs the known minimum: converged => gap <= '
                             '10 eps; n <= 6 and 20000 evaluations => converged'}]}}
