"""C13: harnesses and stages (loaded by bin/checks.py)."""

HARNESSES = {
    "c13_tuner": {"src": ["harness/c13_tuner.cpp"]},
    "c13_tune_sched": {"src": ["harness/c13_tune_sched.cpp", "engine/sched.cpp"]},
    "c13_budget": {"src": ["harness/c13_budget.cpp"]},
}

CHECKS = {
    "C13": {
        "level": "model_checking",
        "engine": "E2 mc + E3 lattice + E1 sched",
        "technique": "exhaustive choice-point exploration of the evaluation callback's answers (all landscapes over {0,1,2} on "
                     "small grids) on the real tuners; preemption-bounded schedule exploration of ml::tune's pool",
        "level_text": "both tuners are executed on every landscape they can distinguish over a 3-value alphabet on grids up to "
                      "3x3 / 2x2x2 (quick) and 3x4 / 2x2x3 (thorough); every clause of the statement is evaluated on every run",
        "level_note": "trusted: the callback-side bookkeeping of the harness; three answer values stand for all real values",
        "rule": "an execution = one tuner_t::optimize run under one answer sequence; non-trivial = landscapes with a tie for "
                "the minimum among the evaluated points; for the nonfinite stage: runs in which the poisoned evaluation was reached",
        "assumptions": [],
        "deadline": {"quick": 480, "thorough": 3600},
        "stages": [
            {"name": "landscape", "harness": "c13_tuner", "args": ["--stage", "landscape"], "share": 0.2,
             "what": "grid-only, no repeats, <= max_evals + 3^d, sorted steps, first = minimum, steps = evaluations"},
            {"name": "budget", "harness": "c13_budget", "share": 0.1,
             "what": "large grids (1..3 spaces, up to 31 values) x max_evals 10..100 x structured landscapes: grid points only, "
                     "no repeats, <= max_evals + 3^d, sorted, first = minimum"},
            {"name": "nonfinite", "harness": "c13_tuner", "args": ["--stage", "nonfinite"], "share": 0.1,
             "what": "a NaN/+inf/-inf answer at every evaluation position must make optimize() throw"},
            {"name": "tune-sched", "harness": "c13_tune_sched", "crash_is_violation": True, "args_quick": ["--budget", "2"], "share": 0.4,
             "args_thorough": ["--budget", "2", "--maxfolds", "3", "--maxW", "2"],
             "what": "ml::tune with a W-worker pool: callback exactly once per (trial, fold) with the fold's indices, "
                     "statistics/extra stored under the right (trial, fold), optimum trial, schedule-independent result"},
            {"name": "tune-sched-w3", "harness": "c13_tune_sched", "crash_is_violation": True, "tiers": ["thorough"], "share": 0.3,
             "args": ["--budget", "1", "--maxfolds", "2", "--maxW", "3"],
             "what": "the same with up to 3 workers, 2 folds and 1 preemption (3 workers with 2 preemptions or with 3 folds did not "
                     "complete within the deadline and are not claimed)"},
        ],
    },
}
