"""C06: harnesses and stages (loaded by bin/checks.py)."""

HARNESSES = {"c06_truthful": {"src": ["harness/c06_truthful.cpp"]}}

CHECKS = {
    "C06": {
        "level": "exploration",
        "engine": "E3 lattice",
        "technique": "bounded-exhaustive enumeration of (object, dimension, point, direction / ordered point pair) lattices; "
                     "two-step central differences with kink recognition, the (strong) convexity inequality and the arg-max / "
                     "sign decision rules coded in the harness as independent oracles",
        "level_text": "every registered benchmark prototype (48) at dims {1,2,3,4,8} (thorough {1..8,12,16,24,32}) and 2-3 summand "
                      "counts, every loss (17, pinball at 3 alphas) at 1/2/3/13 (thorough +4) outputs with every listed target "
                      "pattern and every prediction over {-30,-1,-1e-3,1e-3,1,30}^k (thorough 10 values per output), 11 "
                      "constraint kinds with 2-3 coefficient instances at 4-6 dims and the linear / gboost / surrogate objectives "
                      "on tiny datasets are evaluated at every point of a fixed lattice (zero + 6 patterns x radii "
                      "{1e-3,0.1,1,10} x sign; thorough 8 patterns x 7-10 radii), along every fixed direction, and for every "
                      "ordered pair of lattice points; this is a complete enumeration of the stated lattice, not a proof for "
                      "other points, dimensions or coefficients",
        "level_note": "trusted: IEEE double arithmetic of g++ 12 / Eigen, the noise model of the finite-difference tolerance "
                      "(1e-13*(3 max|f|+|g|max(1,|x|)+n)/h), the lattice as representative of the quantifier domain; the "
                      "adversarial hill-climbing of the quantifier text is replaced by the lattice extremes (radius 10, 32 dims)",
        "rule": "an evaluation = one oracle judgement (one directional-derivative comparison, one value-only comparison, one "
                "ordered pair in the convexity inequality, one non-negativity / decision-rule / batch-vs-alone comparison); "
                "non-trivial = the judgement was actually demanded: the point is differentiable along the direction and both "
                "steps resolve the derivative (kinks = a jump of the one-sided derivatives extrapolated from the second "
                "differences at the two steps, unresolved and non-finite neighbourhoods are skipped, counted as outcomes and "
                "written to the shard log), the object declares convexity, the arg-max is unique",
        "assumptions": ["derivatives are demanded only at points of differentiability recognised by the two-step second "
                        "difference; sub-gradients at kinks are judged by the convexity inequality only",
                        "symmetric P in quadratic constraints; s-classnll targets have a positive class; arg-max ties are "
                        "excluded from the decision-rule comparison",
                        "ML objectives run single-threaded (thread/batch independence is C09)",
                        "linear::function_t with l2 > 0 is additionally checked restricted to the weights (bias fixed), where "
                        "its declared strong-convexity coefficient can hold; on the full vector it is the recorded finding "
                        "strong-convexity:linear/l2>0"],
        "deadline": {"quick": 240, "thorough": 900},
        "stages": [
            {"name": "functions", "harness": "c06_truthful", "args": ["--stage", "functions"], "share": 0.4,
             "what": "benchmark prototypes x dims x summands: gradient vs two-step central differences, value-only == "
                     "value+gradient, (strong) convexity inequality over all ordered pairs of the point lattice"},
            {"name": "losses", "harness": "c06_truthful", "args": ["--stage", "losses"], "share": 0.3,
             "what": "17 losses (pinball at 3 alphas) x outputs x targets x predictions: gradient, convex flag in prediction "
                     "space, batch == alone, non-negativity, 0-1 error vs arg-max / sign rule"},
            {"name": "constraints", "harness": "c06_truthful", "args": ["--stage", "constraints"], "share": 0.1,
             "what": "11 constraint kinds x coefficient instances x dims: nano::vgrad gradient, convex / strong_convexity flags"},
            {"name": "mlobjectives", "harness": "c06_truthful", "args": ["--stage", "mlobjectives"], "share": 0.2,
             "what": "linear::function_t (4 regularisations), gboost bias/scale/grads, quadratic surrogate (fit): gradient, "
                     "value-only == value, convex / strong-convexity flags"},
        ],
    }
}
