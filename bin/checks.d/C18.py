"""C18: harnesses and stages (loaded by bin/checks.py)."""

HARNESSES = {
    "c18_shared": {"src": ["harness/c18_shared.cpp", "engine/sched.cpp"]},
    "c18_fit_sched": {"src": ["harness/c18_fit_sched.cpp", "engine/sched.cpp"]},
    "c18_wfit_sched": {"src": ["harness/c18_wfit_sched.cpp", "engine/sched.cpp"]},
}

CHECKS = {
    "C18": {
        "level": "model_checking",
        "engine": "E3 lattice + E1 sched + ThreadSanitizer",
        "technique": "sharing-pattern x thread-count lattice with bitwise comparison against the solo call; the same bodies "
                     "under ThreadSanitizer; deviation-bounded schedule exploration of a model fit; preemption-bounded schedule "
                     "exploration of one weak-learner fit (which worker's cache scores which feature chunk)",
        "level_text": "every deterministic solver, every loss, dataset views and a fitted model are used concurrently from 2..16 "
                      "threads through their const interface and every result is compared bit for bit with the call executed "
                      "alone; full fits are repeated for pool sizes {1,2,16}^2; the tsan build of the same bodies must be silent; every "
                      "schedule (<= 2, thorough 4 preemptions, 2 workers; 1 preemption, 3 workers) of 8 weak learners x 3 datasets "
                      "must fit the learner of the one-thread fit",
        "level_note": "the data-race clause rests on a dynamic race detector over enumerated configurations (stated in DESIGN.md "
                      "§4 C18 and §7); bitwise equality is decided on the schedules the OS produced, plus the bounded schedule "
                      "exploration of the pool-level bodies (C17, C09, C13)",
        "rule": "one evaluation = one sharing configuration (K threads x repetitions) compared with the solo results",
        "assumptions": [],
        "deadline": {"quick": 600, "thorough": 2400},
        "stages": [
            {"name": "solvers", "timing_dependent": True, "harness": "c18_shared", "args": ["--stage", "solvers"], "share": 0.2,
             "what": "one shared solver instance, K threads minimising their own functions: bit-identical to solo"},
            {"name": "objects", "timing_dependent": True, "harness": "c18_shared", "args": ["--stage", "objects"], "share": 0.2,
             "what": "shared loss / dataset / fitted model through the const interface"},
            {"name": "fit", "timing_dependent": True, "harness": "c18_shared", "args": ["--stage", "fit"], "share": 0.2,
             "what": "linear x4 and gboost fits with dataset/internal pools of 1, 2, 16 threads: same features, predictions 1e-5"},
            {"name": "solvers-tsan", "harness": "c18_shared", "variant": "tsan", "args": ["--stage", "solvers", "--small", "1"],
             "share": 0.15, "crash_is_violation": True, "what": "race oracle for the shared-solver bodies"},
            {"name": "objects-tsan", "harness": "c18_shared", "variant": "tsan", "args": ["--stage", "objects", "--small", "1"],
             "share": 0.1, "crash_is_violation": True, "what": "race oracle for shared loss / dataset / model"},
            {"name": "fit-tsan", "harness": "c18_shared", "variant": "tsan", "args": ["--stage", "fit", "--small", "1"],
             "share": 0.15, "crash_is_violation": True, "what": "race oracle for tuning + fitting with 2 and 16 threads"},
            {"name": "fit-sched", "harness": "c18_fit_sched", "args_quick": ["--budget", "1", "--samples", "16"], "args_thorough": ["--budget", "1", "--samples", "24"],
             "share": 0.3, "crash_is_violation": True,
             "what": "whole fits (ridge, gboost) with 2-worker pools under the scheduler: every schedule of the whole fit with at most 1 "
                     "non-default scheduling choice, on a 16-sample (quick) / 24-sample (thorough) dataset"},
            {"name": "wfit-sched", "harness": "c18_wfit_sched", "args_quick": ["--budget", "2", "--maxW", "2"],
             "args_thorough": ["--budget", "4", "--maxW", "2"], "share": 0.2, "crash_is_violation": True,
             "what": "one weak-learner fit (8 learners x 3 datasets with many-class categorical features) with W workers under the "
                     "scheduler: every distribution of feature chunks over the workers' caches selects the feature, score and "
                     "predictions of the one-thread fit"},
            {"name": "wfit-sched-w3", "harness": "c18_wfit_sched", "tiers": ["thorough"], "args": ["--budget", "1", "--maxW", "3"],
             "share": 0.3, "crash_is_violation": True,
             "what": "the same with up to 3 workers and 1 preemption"},
        ],
    },
}
