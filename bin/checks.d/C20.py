"""C20: harnesses and stages (loaded by bin/checks.py)."""

HARNESSES = {'c20_orderstats': {'src': ['harness/c20_orderstats.cpp']}}

CHECKS = {'C20': {'level': 'exploration',
         'engine': 'E3 lattice',
         'technique': 'bounded-exhaustive enumeration of value lists x percentages x threshold multisets x queries '
                      'against a sorted-array / exact-rational reference',
         'level_text': 'every list of length <= 4 (quick) / <= 6 (thorough) over an 8-value alphabet with ties and '
                       'negative values is checked at all 401 percentages of the 0.25 grid and against all 164 '
                       'threshold multisets; this is a complete small-scope enumeration, not a proof for longer lists '
                       'or other values',
         'level_note': 'trusted: the reference (std::sort + exact integer position arithmetic), g++ 12, the alphabets '
                       'as representatives of the quantifier domain',
         'rule': 'bounded-exhaustive enumeration (E3): every value list up to the stated length over the value '
                 'alphabet x every percentage on the 0.25 grid / every threshold multiset of size 1..3 / every query '
                 'value; a case is non-trivial when the percentile position is fractional between two distinct '
                 'neighbours, when a stored value lies exactly on a threshold, or when the bin() query is a '
                 'non-integer or equals a threshold',
         'assumptions': ['values/thresholds outside the alphabets and lists longer than the bound are not covered '
                         '(three structured lists of 101..500 values are added as a finite list)',
                         'means are compared with 1e-12 relative tolerance, everything else exactly'],
         'deadline': {'quick': 300, 'thorough': 1500},
         'stages': [{'name': 'pct',
                     'harness': 'c20_orderstats',
                     'args': ['--stage', 'pct'],
                     'what': 'percentile / percentile_sorted / median / ml::store_stats vs exact-rational position in '
                             'the sorted list'},
                    {'name': 'hist',
                     'harness': 'c20_orderstats',
                     'args': ['--stage', 'hist'],
                     'what': 'histogram bins (direct, ratios, percentiles, exponents) vs partition by the counting '
                             'rule'},
                    {'name': 'bin',
                     'harness': 'c20_orderstats',
                     'args': ['--stage', 'bin'],
                     'shards': 4,
                     'what': 'histogram_t::bin(v) vs number of thresholds <= v'}]}}
