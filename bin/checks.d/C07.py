"""C07: harnesses and stages (loaded by bin/checks.py)."""

HARNESSES = {'c07_lsearch': {'src': ['harness/c07_lsearch.cpp']}}

CHECKS = {'C07': {'level': 'exploration',
         'engine': 'E3 lattice',
         'technique': 'bounded-exhaustive enumeration of (function, origin, direction, initial step, (c1,c2), '
                      'max_iterations, line-search method and interpolation) with every reported step judged by the '
                      'Armijo / Wolfe / strong Wolfe / approximate Wolfe definitions recomputed from the user function',
         'level_text': 'every registered smooth benchmark function at 1, 2, 4 (thorough: 1, 2, 3, 4, 8, 16) dimensions plus '
                       'harness convex quadratics (condition number 1 and 1e3) is searched from 6 origins (r*ones and '
                       'r*alternating signs, r in 1e-2, 1, 1e3; thorough: 12 origins, r in 1e-2, 1e-1, 1, 10, 1e2, 1e3) along 5 directions (negative gradient, negative '
                       'gradient rotated by 60 degrees in the first plane, diagonally scaled negative gradient, '
                       'gradient (ascent), zero) with 5 initial steps (1e-3, 1, 1e3, NaN, +inf), 4 tolerance pairs, 4 '
                       'iteration budgets (1, 2, 128, 10000) and all 11 (method, interpolation) configurations of '
                       'the 5 line-searches; a complete enumeration of that lattice, not a proof for other points, '
                       'directions or tolerances',
         'level_note': 'trusted: the user functions themselves (value and gradient as returned by function_t::vgrad '
                       'are the definition of f and grad f), long-double dot products of the harness, g++ 12, the '
                       'alphabets as representatives of the quantifier domain',
         'rule': 'bounded-exhaustive enumeration (E3). One evaluation = one call of lsearchk_t::get with all clauses '
                 'that apply: non-descent direction (g.d >= 0) => failure and state bit-identical; reported success '
                 '=> t finite and positive, state.x = x + t d within 4 eps (|x_i| + |t d_i|), state.fx / state.gx = '
                 'the function evaluated at state.x; backtrack => Armijo, lemarechal => Armijo + Wolfe, fletcher => '
                 'Armijo + strong Wolfe; on convex quadratics More-Thuente => Armijo + strong Wolfe, CG_DESCENT => '
                 '(Armijo and Wolfe) or (approximate Wolfe and f <= f0 + eps |f0|), and all five must succeed for a '
                 'finite t0 and max_iterations >= 128. A case is non-trivial when the search reported success '
                 'after more than one trial step (function evaluations counted on the function object)',
         'assumptions': ['tolerances of the statement ("up to rounding"): 4 eps (|f0| + |f|) on the value inequality, '
                         '4 eps (||g0|| + ||g||) ||d|| on the slope inequalities',
                         'More-Thuente and CG_DESCENT are held to their advertised conditions on convex quadratics '
                         'only, elsewhere to the generic clauses (finite positive step, state = evaluation at x + t d)',
                         'the clauses particular to convex quadratics are judged for max_iterations >= 128 and when '
                         'the exact line minimum (g0.d)^2 / (2 d\'Ad) is more than 1e-10 (|f0| + ||g0|| ||x0||) below f0; CG_DESCENT '
                         'reporting success without Wolfe / approximate Wolfe on a quadratic with max_iterations in '
                         '{1, 2} (budget exhausted while bracketing: interval_t::done() answers true for "bracketing '
                         'failed" and do_get returns state.valid() as the success flag) is outside that sub-domain: '
                         'it is counted as an outcome (not-judged:...), not reported as a violation',
                         'origins where the function value or gradient is not finite, and directions whose slope is '
                         'within rounding of zero, are not judged; a failure along a descent direction is allowed '
                         'except on convex quadratics with a finite t0 and max_iterations >= 128',
                         'points, directions, tolerances and parameters (tau, safeguard, delta, ...) outside the '
                         'lattice are not covered'],
         'deadline': {'quick': 240, 'thorough': 900},
         'stages': [{'name': 'ls',
                     'harness': 'c07_lsearch',
                     'args': [],
                     'what': 'lsearchk_t::get on every case of the lattice vs the acceptance conditions recomputed '
                             'from function_t::vgrad at the returned point'}]}}
