"""C15: harnesses and stages (loaded by bin/checks.py)."""

HARNESSES = {'c15_serial': {'src': ['harness/c15_serial.cpp']}}

CHECKS = {'C15': {'level': 'fault_enumeration',
         'engine': 'E3 lattice',
         'technique': 'fault enumeration over a corpus of streams written by the real writers: every truncation '
                      'offset of every stream (crash points) and every single-byte corruption (3 patterns) of every '
                      'tensor stream (stand-alone and nested in weak learners / linear / boosting models) is fed to the '
                      'real readers; exhaustive round trips of the corpus',
         'level_text': 'the corpus (tensors of 10 scalar types x rank 1..5 x every shape with dims 0..3, thorough: '
                       '0..6 for rank <= 3 and 0..4 for rank 4; parameters/features of every kind; every factory object of '
                       'solver/loss/splitter/tuner/lsearch0/lsearchk/wlearner/linear in default and modified '
                       'configuration; all 8 weak learners fitted on 2 datasets of 40 samples; 4 (thorough: 8) linear '
                       'models fitted on 24 samples and 3 gradient boosting models fitted on 40 samples) is enumerated completely: every strict prefix of every stream '
                       'and every byte x {^0x01, ^0x80, ~} of every tensor stream, stand-alone or nested in a composite '
                       'stream. Nothing is claimed about other '
                       'objects, multi-byte corruptions or corruptions of non-tensor bytes. The fault space is the '
                       'flat product object x offset (x pattern), enumerated with the E3 odometer; no choice-point '
                       'search (E2) is involved',
         'level_note': 'trusted: std::streambuf over the byte range (libstdc++ 12), ASan/UBSan as the out-of-bounds '
                       'oracle of the truncate/corrupt stages, RLIMIT_AS as the allocation cap of the rel stages',
         'rule': 'fault enumeration: evaluations = reader runs (one per object in roundtrip, one per (object, prefix '
                 'length k < len) in truncate*, one per (tensor or composite object, byte offset inside a tensor, '
                 'pattern) in corrupt*); non-trivial = '
                 'prefixes that end strictly inside a nested object (parameter in a vector, feature, tensor, weak '
                 'learner inside a model; measured by locating the separately serialized sub-objects in the stream), '
                 'judged corruptions of dims/hash/payload bytes (not of the constant version/rank/sizeof fields, not '
                 'the reshaped-empty-tensor cases that are not judged), round '
                 'trips of non-empty / fitted / composite objects',
         'assumptions': ['not judged (coordinator decision): a single-byte change of the dims field of a tensor WITHOUT '
                         'elements that the reader turns into another well-formed empty tensor (all read-back dims >= '
                         '0, element count 0), e.g. (0,0) -> (1,0): the statement promises failure for altered payload '
                         'bytes and strict prefixes, the dims are header and there is no payload to protect; these '
                         'cases are counted as outcome "accepted:empty-tensor-reshaped(not judged)". Every other '
                         'accepted corruption is a violation: any payload byte, any header byte of a non-empty tensor, '
                         'any read-back negative dimension (fixed in /repo by ae51d9d), any crash or out-of-bounds '
                         'access',
                         'a reader "reports failure" when it throws any exception or leaves the stream with '
                         'failbit/badbit set; std::bad_alloc/std::length_error count as rejection',
                         'RLIMIT_AS cannot be combined with ASan (shadow memory): the asan stages cap the request '
                         'size of the ASan allocator instead (max_allocation_size_mb=8 compiled into the harness, '
                         'allocator_may_return_null=1): larger requests return nullptr => std::bad_alloc from the '
                         'tensor storage; the rel stages truncate-rlimit/corrupt-rlimit cap the address space at 4 GiB '
                         'with setrlimit',
                         'fitted objects are produced by the library itself (fit on harness datasets); their streams '
                         'are whatever the writers emit for them'],
         'deadline': {'quick': 600, 'thorough': 1800},
         'stages': [{'name': 'roundtrip',
                     'harness': 'c15_serial',
                     'args': ['--stage', 'roundtrip', '--rlimit-mb', '4096'],
                     'share': 0.2,
                     'crash_is_violation': True,
                     'what': 'write -> read into a fresh object: same parameters (field by field), same tensors bit by '
                             'bit, identical bytes when written again, reader consumed exactly the stream, '
                             'bit-identical predictions/splits on the harness dataset'},
                    {'name': 'truncate',
                     'harness': 'c15_serial',
                     'variant': 'asan',
                     'args': ['--stage', 'truncate'],
                     'share': 0.3,
                     'crash_is_violation': True,
                     'what': 'every strict prefix of every stream of the corpus under ASan+UBSan: the reader must '
                             'throw or fail the stream, never touch memory out of bounds'},
                    {'name': 'truncate-rlimit',
                     'harness': 'c15_serial',
                     'args': ['--stage', 'truncate', '--rlimit-mb', '4096'],
                     'share': 0.15,
                     'crash_is_violation': True,
                     'what': 'the same prefixes in the release build with the address space capped at 4 GiB: a '
                             'garbage count must end in an exception, not in an OOM kill'},
                    {'name': 'corrupt',
                     'harness': 'c15_serial',
                     'variant': 'asan',
                     'args': ['--stage', 'corrupt'],
                     'share': 0.2,
                     'crash_is_violation': True,
                     'what': 'every tensor stream, every header and payload byte, b^0x01 / b^0x80 / ~b under '
                             'ASan+UBSan: the reader must report failure; negative and huge dims must not lead to '
                             'out-of-bounds accesses'},
                    {'name': 'corrupt-rlimit',
                     'harness': 'c15_serial',
                     'args': ['--stage', 'corrupt', '--rlimit-mb', '4096'],
                     'share': 0.15,
                     'crash_is_violation': True,
                     'what': 'the same corruptions in the release build with the address space capped at 4 GiB'}]}}
