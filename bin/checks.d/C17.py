"""C17: harnesses and stages (loaded by bin/checks.py)."""

HARNESSES = {'c17_free': {'src': ['harness/c17_free.cpp']},
 'c17_pool': {'cflags': '-fno-access-control', 'src': ['harness/c17_pool.cpp', 'engine/sched.cpp']}}

CHECKS = {'C17': {'level': 'model_checking',
         'engine': 'E1 sched',
         'technique': 'stateless model checking of the real pool_t: preemption-bounded exhaustive schedule exploration '
                      'under a link-time interposed serialising scheduler, happens-before fingerprint pruning',
         'level_text': 'every interleaving (at synchronisation operations and one point per task) of six closed '
                       'harnesses with <= 3 workers, <= 4 tasks, <= 2 submitters is executed on the implementation '
                       'within the stated preemption budget and judged by invariant monitors; deadlocks are detected '
                       "as 'no enabled thread'",
         'level_note': "trusted: the interposition layer's model of mutex/condvar/future semantics (sequentially "
                       'consistent), 64-bit fingerprints, glibc/libstdc++ 12 internals named in DESIGN.md §2',
         'rule': 'executions = complete runs of a harness body under one schedule; non-trivial = executions containing '
                 'at least one preemption of a runnable thread',
         'deadline': {'quick': 240, 'thorough': 2400},
         'stages': [{'name': 'sched-state-b2',
                     'harness': 'c17_pool',
                     'args': ['--budget', '2', '--prune', '2', '--heavybudget', '1'],
                     'tiers': ['quick'],
                     'share': 0.4,
                     'what': 'H1..H6, W<=3 (H5 also W=1), T<=4, preemption budget 2 (two submitters on 3 workers: 1), '
                             'state-fingerprint pruning'},
                    {'name': 'sched-state-unbounded-small',
                     'harness': 'c17_pool',
                     'args': ['--budget', '99', '--prune', '2', '--maxW', '2', '--maxT', '3'],
                     'tiers': ['quick'],
                     'share': 0.2,
                     'what': 'H1..H6, W<=2, T<=3, no preemption bound: the complete state graph modulo state '
                             'fingerprints'},
                    {'name': 'free',
                     'harness': 'c17_free',
                     'share': 0.2,
                     'crash_is_violation': True,
                     'what': 'free-running pool: size x elements x chunk x submitters x thrower lattice, shutdown with '
                             'queued tasks'},
                    {'name': 'free-tsan',
                     'harness': 'c17_free',
                     'variant': 'tsan',
                     'args': ['--small', '1'],
                     'share': 0.2,
                     'crash_is_violation': True,
                     'what': 'the same bodies under ThreadSanitizer (race oracle for the assumption behind the '
                             'schedule exploration)'},
                    {'name': 'sched-state-unbounded',
                     'harness': 'c17_pool',
                     'args': ['--budget', '99', '--prune', '2', '--maxW', '3', '--maxT', '3', '--split', 'frontier'],
                     'tiers': ['thorough'],
                     'share': 0.3,
                     'what': 'H1..H6, W<=3, T<=3, no preemption bound (complete modulo state fingerprints)'},
                    {'name': 'sched-state-b3',
                     'harness': 'c17_pool',
                     'args': ['--budget', '3', '--prune', '2', '--split', 'frontier'],
                     'tiers': ['thorough'],
                     'share': 0.3,
                     'what': 'H1..H6, W<=3, T<=4, preemption budget 3'},
                    {'name': 'sched-state-spurious',
                     'harness': 'c17_pool',
                     'args': ['--budget', '2', '--spurious', '1', '--prune', '2', '--heavybudget', '1'],
                     'tiers': ['thorough'],
                     'share': 0.2,
                     'what': 'as quick, plus one spurious condition-variable wake-up anywhere'},
                    {'name': 'sched-hb-b2',
                     'harness': 'c17_pool',
                     'args': ['--budget',
                              '2',
                              '--prune',
                              '1',
                              '--maxW',
                              '3',
                              '--maxT',
                              '3',
                              '--heavybudget',
                              '1',
                              '--split',
                              'frontier'],
                     'tiers': ['thorough'],
                     'share': 0.3,
                     'what': 'H1..H6, W<=3, T<=3, preemption budget 2, happens-before fingerprints (no state '
                             'abstraction)'},
                    {'name': 'sched-hb-b1',
                     'harness': 'c17_pool',
                     'args': ['--budget', '1', '--prune', '1', '--maxW', '2', '--maxT', '3'],
                     'tiers': ['quick'],
                     'share': 0.2,
                     'what': 'H1..H6, W<=2, T<=3, preemption budget 1, happens-before fingerprints (no state '
                             'abstraction)'}]}}
